#!/venv/bin/python
"""Sensitivity harness: apply hand-written mutants (tools/mutants.json) one at a
time to a scratch copy of /repo under /dev/shm, run a property's check against
the copy (VERIF_REPO) and report whether it is caught.  Never touches /repo.

usage: tools/mutcheck.py [--suite] [--tier quick] [--only NAME] C19 [C20 ...]
"""
import argparse, json, os, shutil, subprocess, sys, tempfile, time

VERIF = os.path.dirname(os.path.dirname(os.path.abspath(__file__)))
SUITE = ['/venv/bin/python', '-m', 'pytest', '-q', '-x', '-p', 'no:cacheprovider', '--timeout=900',
         '--ignore=tests/gpt_neox', '--ignore=tests/integration',
         '--deselect', 'tests/base_preconditioner_test.py::test_base_preconditioner_e2e[1-False-kfac_args0]']


def main():
    ap = argparse.ArgumentParser()
    ap.add_argument('props', nargs='+')
    ap.add_argument('--suite', action='store_true', help='also run the repository test-suite on each mutant')
    ap.add_argument('--tier', default='quick')
    ap.add_argument('--only')
    ap.add_argument('--seeded', action='store_true', help='use seeded/<ID>-*/patch.diff instead of tools/mutants.json')
    ap.add_argument('--seed', default='1')
    ap.add_argument('--use', help='run seeded/<USE>/patch.diff against the given properties (cross-property check)')
    a = ap.parse_args()
    muts = json.load(open(os.path.join(VERIF, 'tools', 'mutants.json')))
    results = []
    for pid in a.props:
        if a.use:
            cand = [{'name': a.use, 'patch': os.path.join(VERIF, 'seeded', a.use, 'patch.diff')}]
        elif a.seeded:
            sd = os.path.join(VERIF, 'seeded')
            cand = [{'name': n, 'patch': os.path.join(sd, n, 'patch.diff')} for n in sorted(os.listdir(sd)) if n.startswith(pid + '-')]
        else:
            cand = muts.get(pid, [])
        for m in cand:
            if a.only and a.only != m['name']:
                continue
            d = tempfile.mkdtemp(prefix='mut_', dir='/dev/shm')
            try:
                subprocess.run(['rsync', '-a', '--exclude', '.git', '/repo/', d + '/'], check=True)
                if 'patch' in m:
                    r = subprocess.run(['patch', '-p1', '-s', '-i', m['patch']], cwd=d, capture_output=True, text=True)
                    if r.returncode != 0:
                        print(f'{pid} {m["name"]}: patch does not apply: {r.stdout[-300:]}', flush=True)
                        results.append((pid, m['name'], 'patch-failed', None))
                        continue
                else:
                    path = os.path.join(d, m['file'])
                    src = open(path).read()
                    if src.count(m['old']) < 1:
                        print(f'{pid} {m["name"]}: pattern not found', flush=True)
                        results.append((pid, m['name'], 'pattern-not-found', None))
                        continue
                    new = src.replace(m['old'], m['new'], m.get('count', 1))
                    for extra in m.get('also', []):
                        assert extra['old'] in new, 'secondary pattern not found'
                        new = new.replace(extra['old'], extra['new'], 1)
                    open(path, 'w').write(new)
                suite = None
                if a.suite:
                    env = dict(os.environ, PYTHONPATH=d, PYTHONHASHSEED='0')
                    r = subprocess.run(SUITE, cwd=d, env=env, capture_output=True, text=True)
                    suite = r.returncode == 0
                env = dict(os.environ, VERIF_REPO=d, VERIF_EVIDENCE_DIR=d + '/_ev', VERIF_REPLAY_DIR=d + '/_rp', VERIF_SEED=a.seed)
                t0 = time.time()
                r = subprocess.run([os.path.join(VERIF, 'check'), pid, '--tier', a.tier], env=env, capture_output=True, text=True)
                caught = r.returncode == 1 and 'VIOLATION' in r.stdout
                first = next((l for l in r.stdout.splitlines() if l.strip().startswith('key=')), '').strip()[:160]
                status = 'CAUGHT' if caught else ('HARNESS-ERROR' if r.returncode == 2 else 'MISSED')
                print(f'{pid} {m["name"]}: {status} in {time.time() - t0:.0f}s suite_passes={suite} {first}', flush=True)
                if r.returncode == 2:
                    print(r.stderr[-1500:])
                results.append((pid, m['name'], status, suite))
            finally:
                shutil.rmtree(d, ignore_errors=True)
    missed = [r for r in results if r[2] != 'CAUGHT']
    print(f'--- {len(results) - len(missed)}/{len(results)} caught; not caught: {[(r[0], r[1], r[2]) for r in missed]}')


if __name__ == '__main__':
    main()
