#!/bin/bash
# usage: tools/run_all.sh [quick|thorough] [seed ...]   - runs every registered check, prints one line per run
cd "$(dirname "$0")/.."
tier=${1:-quick}; shift
seeds=${@:-1}
for s in $seeds; do
  for id in $(/venv/bin/python -c "import json; print(' '.join(c['property_id'] for c in json.load(open('MANIFEST.json'))['checks']))"); do
    out=$(VERIF_SEED=$s ./check $id --tier $tier 2>&1)
    rc=$?
    echo "$(echo "$out" | grep -E "^$id tier=" | tail -1) [exit $rc]"
    if [ $rc -ne 0 ]; then echo "$out" | grep -E "VIOLATION|HARNESS|key=" | head -5; fi
  done
done
