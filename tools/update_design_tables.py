#!/venv/bin/python
"""Regenerate the seeded-change table of DESIGN.md section 7.2 from seeded/*/meta.json (written by tools/seed_report.py)."""
import json, os, re
VERIF = os.path.dirname(os.path.dirname(os.path.abspath(__file__)))
rows = []
for name in sorted(os.listdir(os.path.join(VERIF, 'seeded'))):
    mp = os.path.join(VERIF, 'seeded', name, 'meta.json')
    if not os.path.exists(mp):
        continue
    m = json.load(open(mp))
    rows.append(f"| {name} | {m['result']} | {m['violation_key']} | {m['seconds']} | {(m.get('summary') or '')[:110].replace('|', '/')} |")
p = os.path.join(VERIF, 'DESIGN.md')
s = open(p).read()
head = '| seeded change | result of `./check` (quick) | violation key | s | what was changed |\n|---|---|---|---|---|\n'
i = s.index(head) + len(head)
j = s.index('\n\n', i)
s = s[:i] + '\n'.join(rows) + s[j:]
open(p, 'w').write(s)
caught = sum(1 for r in rows if '| caught |' in r)
print(f'{caught}/{len(rows)} caught')
