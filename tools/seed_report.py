#!/venv/bin/python
"""Run every seeded change (seeded/<ID>-x/patch.diff) against its property's check in a scratch copy of /repo,
write seeded/<name>/meta.json and print a markdown table (used for DESIGN.md section 7)."""
import json, os, subprocess, sys, tempfile, shutil, time
VERIF = os.path.dirname(os.path.dirname(os.path.abspath(__file__)))
sd = os.path.join(VERIF, 'seeded')
rows = []
ONLY_NEW = '--new' in sys.argv      # only seeds that have no meta.json yet
for name in sorted(os.listdir(sd)):
    d = os.path.join(sd, name)
    if ONLY_NEW and os.path.exists(os.path.join(d, 'meta.json')):
        continue
    pid = name.split('-')[0]
    agent = json.load(open(os.path.join(d, 'meta.agent.json'))) if os.path.exists(os.path.join(d, 'meta.agent.json')) else {}
    tmp = tempfile.mkdtemp(prefix='seed_', dir='/dev/shm')
    try:
        subprocess.run(['rsync', '-a', '--exclude', '.git', '/repo/', tmp + '/'], check=True)
        r = subprocess.run(['patch', '-p1', '-s', '-i', os.path.join(d, 'patch.diff')], cwd=tmp, capture_output=True, text=True)
        if r.returncode != 0:
            status, key, secs = 'patch-does-not-apply', '', 0
        else:
            env = dict(os.environ, VERIF_REPO=tmp, VERIF_EVIDENCE_DIR=tmp + '/_ev', VERIF_REPLAY_DIR=tmp + '/_rp', VERIF_SEED='1')
            t0 = time.time()
            r = subprocess.run([os.path.join(VERIF, 'check'), pid, '--tier', 'quick'], env=env, capture_output=True, text=True)
            secs = round(time.time() - t0)
            status = 'caught' if (r.returncode == 1 and 'VIOLATION' in r.stdout) else ('harness-error' if r.returncode == 2 else 'missed')
            key = next((l.strip().split(' :: ')[0].replace('key=', '') for l in r.stdout.splitlines() if l.strip().startswith('key=')), '')
    finally:
        shutil.rmtree(tmp, ignore_errors=True)
    meta = {
        'property': pid,
        'source': 'independent sub-agent working in a scratch worktree; it saw only the property text, nothing from /verif',
        'files': agent.get('files'),
        'summary': agent.get('summary'),
        'needs': agent.get('needs'),
        'why_tests_pass': agent.get('why_tests_pass'),
        'confirmed': 'tools/confirm_seed.sh <worktree> %s: demo.py fails with the change, the repository suite passes with the change, demo.py passes with the change reverted (see confirm.log)' % name,
        'checked_with': f'tools/seed_report.py: patch applied to a scratch copy of /repo (current HEAD incl. fix commits), ./check {pid} --tier quick with VERIF_REPO=<copy>',
        'result': status, 'violation_key': key, 'seconds': secs,
    }
    json.dump(meta, open(os.path.join(d, 'meta.json'), 'w'), indent=1)
    rows.append((name, status, key, secs, (agent.get('summary') or '')[:110].replace('|', '/')))
    print(rows[-1], flush=True)
print('\n| seeded change | result of `./check` (quick) | violation key | s | what was changed |')
print('|---|---|---|---|---|')
for r in rows:
    print(f'| {r[0]} | {r[1]} | {r[2]} | {r[3]} | {r[4]} |')
