#!/venv/bin/python
"""Regenerate MANIFEST.json from the property modules that exist (props/cXX.py)."""
import importlib, json, os, sys
VERIF = os.path.dirname(os.path.dirname(os.path.abspath(__file__)))
sys.path.insert(0, VERIF)
from vkit import runner
runner.setup_paths()
props = [json.loads(l) for l in open(os.path.join(VERIF, 'properties.jsonl'))]
checks, na = [], []
META = json.load(open(os.path.join(VERIF, 'tools', 'manifest_meta.json')))
for p in props:
    pid = p['id']
    if not os.path.exists(os.path.join(VERIF, 'props', pid.lower() + '.py')):
        na.append({'property_id': pid, 'reason': 'check not built yet (work in progress); planned per DESIGN.md section 3'})
        continue
    m = META.get(pid, {})
    PROP = importlib.import_module('props.' + pid.lower()).PROP
    checks.append({
        'property_id': pid,
        'quick_cmd': f'./check {pid} --tier quick',
        'thorough_cmd': f'./check {pid} --tier thorough',
        'evidence_file': f'evidence/{pid}.json',
        'replay_cmd_template': f'./check {pid} --replay {{path}}',
        'engine': m.get('engine', 'runner'),
        'level_claimed': {'category': PROP.level, 'text': m.get('level_text', ''), 'design_ref': f'DESIGN.md section 3, {pid}'},
        'level_note': m.get('level_note', '; '.join(PROP.assumptions)),
        'technique': m.get('technique', 'property-based testing (Hypothesis) against an explicit oracle'),
    })
man = {
    'version': 1,
    'setup_cmd': '(/venv/bin/python -c "import hypothesis" 2>/dev/null || /venv/bin/pip install --no-index --find-links /opt/veriftools/wheels hypothesis) && (test -d .deps/atheris || /venv/bin/pip install -q --no-index --find-links /opt/veriftools/wheels --target .deps atheris || true)',
    'hooks': {
        'guard': 'KFAC_PYTORCH_VERIF',
        'enable': 'none needed: checks import kfac from /repo\'s working tree and observe it by patching torch.distributed.*, torch.futures.Future, kfac.tracing.time and sys.modules[deepspeed...] from the harness; the guard variable is exported by ./check but no repository code reads it',
        'baseline_off_cmd': 'cd /repo && /venv/bin/python -m pytest -ra -q -p no:cacheprovider --timeout=900 --continue-on-collection-errors',
        'source_commits': [],
        'add_only': True,
    },
    'engines': META.get('_engines', []),
    'checks': checks,
    'notes': META.get('_notes', ''),
    'not_applicable': na,
}
json.dump(man, open(os.path.join(VERIF, 'MANIFEST.json'), 'w'), indent=1)
print('checks:', [c['property_id'] for c in checks], 'n/a:', len(na))
