#!/venv/bin/python
"""For a seeded change that the quick tier at seed 1 does not catch any more (generators got broader over time), search with other
seeds / the thorough tier for a catching input and keep the shrunk case in regress/<ID>/ so that it is replayed on every run.
usage: tools/harvest_regress.py <seed-name e.g. C02-f> [ID]"""
import json, os, shutil, subprocess, sys, tempfile
VERIF = os.path.dirname(os.path.dirname(os.path.abspath(__file__)))
name = sys.argv[1]
pid = sys.argv[2] if len(sys.argv) > 2 else name.split('-')[0]
tmp = tempfile.mkdtemp(prefix='hv_', dir='/dev/shm')
try:
    subprocess.run(['rsync', '-a', '--exclude', '.git', '/repo/', tmp + '/'], check=True)
    r = subprocess.run(['patch', '-p1', '-s', '-i', os.path.join(VERIF, 'seeded', name, 'patch.diff')], cwd=tmp, capture_output=True, text=True)
    if r.returncode != 0:
        print('patch does not apply'); sys.exit(2)
    for tier, seeds in (('quick', [2, 3, 4, 5, 6, 7, 8]), ('thorough', [1, 2])):
        for sd in seeds:
            env = dict(os.environ, VERIF_REPO=tmp, VERIF_EVIDENCE_DIR=tmp + '/_ev', VERIF_REPLAY_DIR=tmp + '/_rp', VERIF_SEED=str(sd))
            r = subprocess.run([os.path.join(VERIF, 'check'), pid, '--tier', tier], env=env, capture_output=True, text=True)
            if r.returncode == 1 and 'VIOLATION' in r.stdout:
                line = next(l for l in r.stdout.splitlines() if l.startswith('VIOLATION'))
                rp = line.split('replay=')[1].strip()
                d = json.load(open(rp))
                case = d.get('case', d)
                os.makedirs(os.path.join(VERIF, 'regress', pid), exist_ok=True)
                out = os.path.join(VERIF, 'regress', pid, 'seeded_%s.json' % name.replace('-', '_'))
                json.dump(case, open(out, 'w'), indent=1)
                key = next((l.strip() for l in r.stdout.splitlines() if l.strip().startswith('key=')), '')
                print(f'{name}: caught at tier={tier} seed={sd}: {key[:160]} -> {out}')
                sys.exit(0)
    print(f'{name}: not caught at any tried seed'); sys.exit(1)
finally:
    shutil.rmtree(tmp, ignore_errors=True)
