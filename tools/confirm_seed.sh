#!/bin/bash
# usage: tools/confirm_seed.sh <worktree> <dest-name>
# Independently confirms a seeded change produced by a sub-agent in a scratch worktree:
#  (a) demo fails with the change, (b) repo test-suite still passes with the change,
#  (c) demo passes with the change reverted.  Then copies it to /verif/seeded/<dest-name>/.
set -u
WT=$1; NAME=$2
DEST=$(dirname "$(dirname "$(readlink -f "$0")")")/seeded/$NAME
cd "$WT" || exit 2
export PYTHONPATH=$WT PYTHONHASHSEED=0
LOG=$WT/_seed/confirm.log; : > "$LOG"
git diff -- kfac > /tmp/confirm_$NAME.diff
if ! [ -s /tmp/confirm_$NAME.diff ]; then git apply _seed/patch.diff || { echo "cannot apply patch" | tee -a $LOG; exit 2; }; git diff -- kfac > /tmp/confirm_$NAME.diff; fi
timeout 300 /venv/bin/python _seed/demo.py > _seed/demo_with.out 2>&1; RC_WITH=$?
timeout 1500 /venv/bin/python -m pytest -q -p no:cacheprovider --timeout=900 --continue-on-collection-errors -x --deselect "tests/base_preconditioner_test.py::test_base_preconditioner_e2e[1-False-kfac_args0]" --ignore=tests/gpt_neox --ignore=tests/integration > _seed/suite_with.out 2>&1; RC_SUITE=$?
git apply -R /tmp/confirm_$NAME.diff
timeout 300 /venv/bin/python _seed/demo.py > _seed/demo_without.out 2>&1; RC_WITHOUT=$?
git apply /tmp/confirm_$NAME.diff
echo "demo_with_change_rc=$RC_WITH suite_with_change_rc=$RC_SUITE demo_without_change_rc=$RC_WITHOUT" | tee -a $LOG
tail -1 _seed/suite_with.out | tee -a $LOG
if [ $RC_WITH -ne 0 ] && [ $RC_SUITE -eq 0 ] && [ $RC_WITHOUT -eq 0 ]; then
  mkdir -p "$DEST"; cp /tmp/confirm_$NAME.diff "$DEST/patch.diff"; cp _seed/demo.py "$DEST/demo.py"; cp _seed/meta.json "$DEST/meta.agent.json"; cp $LOG "$DEST/confirm.log"
  echo CONFIRMED | tee -a $LOG
else
  echo NOT-CONFIRMED | tee -a $LOG; exit 1
fi
