#!/venv/bin/python
"""Regenerate the table of DESIGN.md section 7.1 from a log of `tools/mutcheck.py C01 ... C20`.
usage: tools/update_mutant_table.py <log>"""
import os, re, sys
VERIF = os.path.dirname(os.path.dirname(os.path.abspath(__file__)))
rows = {}
for l in open(sys.argv[1]):
    m = re.match(r'^(C\d\d) ([^:]+): (CAUGHT|MISSED|patch[^ ]*|pattern[^ ]*)(.*)$', l.strip())
    if not m:
        continue
    pid, name, status, rest = m.groups()
    key = re.search(r'key=(\S+)', rest)
    rows.setdefault(pid, []).append((name, status, key.group(1) if key else ''))
lines, tot, caught = [], 0, 0
for pid in sorted(rows):
    c = sum(1 for _, st, _ in rows[pid] if st == 'CAUGHT')
    tot += len(rows[pid]); caught += c
    names = '; '.join(f'{n} ({k})' if st == 'CAUGHT' else f'**{n}: {st}**' for n, st, k in rows[pid])
    lines.append(f'| {pid} | {c}/{len(rows[pid])} | {names} |')
p = os.path.join(VERIF, 'DESIGN.md')
s = open(p).read()
head = '| property | mutants caught / tried | names (violation key) |\n|---|---|---|\n'
i = s.index(head) + len(head)
j = s.index('\n\n', i)
s = s[:i] + '\n'.join(lines) + s[j:]
s = re.sub(r'Total \d+/\d+ in the quick tier\.[^\n]*', f'Total {caught}/{tot} in the quick tier (last full sweep; `tools/mutcheck.py C01 ... C20`, then `tools/update_mutant_table.py`).', s)
open(p, 'w').write(s)
print(f'{caught}/{tot}')
