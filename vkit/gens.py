"""Hypothesis strategies shared by the numeric properties: runnable model specs, hyper-parameters, data."""

from __future__ import annotations

import math

from hypothesis import strategies as st

from vkit.kmodel import STYLES, conv_out


@st.composite
def model_spec(draw, max_layers=3, allow_conv=True, max_dim=7, min_layers=1, extras=False, nd_linear=True, max_out=6):
    """A runnable chain of 1..max_layers supported layers (conv* [pool flatten] linear*), sizes kept small so that
    Kronecker systems stay <= 64 x 64.  With extras=True unsupported trainable modules are interleaved."""
    nlayers = draw(st.integers(min_layers, max_layers))
    use_conv = allow_conv and draw(st.booleans())
    nconv = draw(st.integers(1, nlayers)) if use_conv else 0
    nlin = nlayers - nconv
    layers = []
    acts = ['relu', 'tanh', 'none', 'tanh']
    spec = {'seed': draw(st.integers(0, 10 ** 6))}
    if nconv:
        C = draw(st.integers(1, 3))
        H = draw(st.integers(2, 6))
        W = draw(st.integers(2, 6))
        spec['input'] = {'C': C, 'H': H, 'W': W}
        c, h, w = C, H, W
        for i in range(nconv):
            # a_dim = c*kh*kw + bias <= max_dim + 1
            kh = draw(st.integers(1, min(3, h + 2)))
            kw = draw(st.integers(1, min(3, w + 2)))
            while c * kh * kw > max_dim:
                if kh >= kw and kh > 1:
                    kh -= 1
                elif kw > 1:
                    kw -= 1
                else:
                    break
            ph = draw(st.integers(0 if kh <= h else (kh - h + 1) // 2, 2))
            pw = draw(st.integers(0 if kw <= w else (kw - w + 1) // 2, 2))
            sh, sw = draw(st.integers(1, 3)), draw(st.integers(1, 3))
            # common special geometries are drawn on purpose (a uniform draw almost never hits them)
            mode = draw(st.sampled_from(['free', 'free', 'free', 'pointwise', 'same']))
            if mode == 'pointwise':
                kh = kw = sh = sw = 1
                ph = pw = 0
            elif mode == 'same' and c * 9 <= max_dim:
                kh = kw = 3
                sh = sw = ph = pw = 1
            cout = draw(st.integers(1, min(4, max_out)))
            layers.append({'t': 'conv', 'cin': c, 'cout': cout, 'k': [kh, kw], 's': [sh, sw], 'p': [ph, pw],
                           'bias': draw(st.booleans()), 'sub': draw(st.sampled_from([False, False, False, True]))})
            c, h, w = cout, conv_out(h, kh, sh, ph), conv_out(w, kw, sw, pw)
            a = draw(st.sampled_from(acts))
            if a != 'none':
                layers.append({'t': 'act', 'name': a})
            if extras and draw(st.sampled_from([False, False, True])):
                layers.append(draw(st.sampled_from([{'t': 'bn', 'n': c}, {'t': 'affine', 'n': c, 'dim': 1}])))
            if c * 1 > max_dim:   # cannot happen (cout <= 4 <= max_dim) but keep the invariant explicit
                raise AssertionError
        if nlin:
            oh = draw(st.integers(1, min(h, max(1, max_dim // c))))
            ow = draw(st.integers(1, min(w, max(1, max_dim // (c * oh)))))
            layers.append({'t': 'pool', 'oh': oh, 'ow': ow})
            layers.append({'t': 'flatten'})
            feat = c * oh * ow
    else:
        feat = draw(st.integers(1, max_dim))
        lead = draw(st.lists(st.integers(1, 3), min_size=0, max_size=2)) if nd_linear else []
        spec['input'] = {'in': feat, 'lead': lead}
    for i in range(nlin):
        out = draw(st.integers(1, max_out))
        layers.append({'t': 'linear', 'in': feat, 'out': out, 'bias': draw(st.booleans()),
                       'sub': draw(st.sampled_from([False, False, False, True]))})
        feat = out
        if i < nlin - 1:
            a = draw(st.sampled_from(acts))
            if a != 'none':
                layers.append({'t': 'act', 'name': a})
            if extras and draw(st.sampled_from([False, False, True])):
                layers.append(draw(st.sampled_from([{'t': 'ln', 'n': feat}, {'t': 'affine', 'n': feat, 'dim': -1}])))
    spec['layers'] = layers
    return spec


def damping_strategy():
    return st.one_of(
        st.sampled_from([1e-3, 3e-3, 1e-2, 0.03, 0.1, 0.3, 1.0, 3.0, 10.0]),
        st.floats(min_value=-3.0, max_value=1.0).map(lambda e: float(10 ** e)),
    )


def decay_strategy():
    return st.one_of(st.sampled_from([0.95, 0.5, 1.0, 0.1, 0.9, 0.3]), st.floats(min_value=0.05, max_value=1.0))


def style_strategy():
    return st.sampled_from(STYLES)


def table_or_const(values, min_len=2, max_len=4):
    """A hyper-parameter given as a constant or as a lookup table t[step % len(t)] (JSON: {'table': [...]})."""
    v = st.sampled_from(values)
    return st.one_of(v, v, st.lists(v, min_size=min_len, max_size=max_len).map(lambda t: {'table': t}))


class LiveValue:
    """A hyper-parameter callable that ignores its step argument and reads *live* state that the training loop changes
    between iterations (the documented idiom ``lr=lambda x: optimizer.param_groups[0]['lr']``).  The harness calls
    ``set_iter(i)`` before the forward pass of iteration i; the value is table[i % len(table)] until the next call."""

    def __init__(self, table):
        self.table = list(table)
        self.i = 0

    def set_iter(self, i):
        self.i = i

    def __call__(self, step=None):
        return self.table[self.i % len(self.table)]


def hp_callable(v):
    """JSON hyper-parameter -> constant or callable evaluated at a step."""
    if isinstance(v, dict) and 'live' in v:
        return LiveValue(v['live'])
    if isinstance(v, dict) and 'table' in v:
        t = list(v['table'])
        return lambda step, t=t: t[step % len(t)]
    if isinstance(v, dict) and 'exp' in v:          # the exponential-decay averaging schedule of C19, own implementation
        cap = v['exp']
        return lambda step, cap=cap: min(1 - 1 / max(step, 1), cap)
    return v
