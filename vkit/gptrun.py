"""Drive the real GPTNeoXKFACPreconditioner on simulated ranks (pipe x data x model) with DeepSpeed/Megatron doubles,
and the unsharded single-process reference (real KFACPreconditioner on the full layers)."""

from __future__ import annotations

import os
import pickle
import warnings

import torch
import torch.distributed as dist
from torch import nn

from vkit import ds_doubles, kmodel, simdist
from vkit.gens import hp_callable
from vkit.kaisa import HP_KEYS


def stage_blocks(case, stage):
    """[(name, (w1, b1, w2, b2))] of the MLP blocks held by a pipeline stage."""
    out = []
    for b in range(case['blocks']):
        idx = stage * case['blocks'] + b
        bias1, bias2 = case['bias'][b % len(case['bias'])]
        out.append((str(idx), ds_doubles.mlp_weights(case['h'], case['f'], bias1, bias2, case['seed'] * 31 + idx,
                                                       kmodel.dt(case.get('param_dtype')) or torch.float32)))
    return out


def micro_rows(case, micro):
    """Batch rows of micro-batch `micro` (micro-batches of one accumulation window may have different sizes)."""
    sizes = case.get('sizes')
    return sizes[micro % len(sizes)] if sizes else case['N']


def batch(case, stage, data_coord, seed, micro=0):
    gen = torch.Generator().manual_seed(seed * 1009 + stage * 131 + data_coord * 17 + micro * 7 + 1)
    # [batch, hidden] or, as GPT-NeoX feeds its layers, [seq, batch, hidden]
    n = micro_rows(case, micro)
    shape = (case['seq'], n, case['h']) if case.get('seq') else (n, case['h'])
    x = torch.randn(shape, generator=gen)
    r = torch.randn(shape, generator=gen)
    pd = kmodel.dt(case.get('param_dtype')) or torch.float32
    return x.to(pd), r.to(pd)


def loss_fn(y, r, n):
    return ((y * r).sum() + 0.5 * (y * y).sum()) / n


def gpt_kwargs(case):
    kw = dict(allreduce_bucket_cap_mb=case.get('cap', 25.0), compute_eigenvalue_outer_product=case.get('prediv', False),
              symmetry_aware=case.get('symmetry', False), accumulation_steps=case.get('accum', 1),
              update_factors_in_hook=case.get('in_hook', True), skip_layers=case.get('skip_layers'))
    if case.get('heuristic'):
        kw['assignment_strategy'] = case['heuristic']
    if case.get('loss_scale'):
        kw['grad_scaler'] = (lambda s=case['loss_scale']: s)
    for k in HP_KEYS:
        if k in case.get('hp', {}):
            kw[k] = hp_callable(case['hp'][k])
    if case.get('factor_dtype'):
        kw['factor_dtype'] = kmodel.dt(case['factor_dtype'])
    if case.get('inv_dtype'):
        kw['inv_dtype'] = kmodel.dt(case['inv_dtype'])
    return kw


class GPTRank:
    def __init__(self, case, rank, observe=()):
        ds_doubles.install()
        from kfac.gpt_neox.preconditioner import GPTNeoXKFACPreconditioner
        self.Pre = GPTNeoXKFACPreconditioner
        self.case, self.rank, self.observe = case, rank, set(observe)
        self.topo = ds_doubles.PipeModelDataParallelTopology(num_pp=case['pipe'], num_mp=case['model'], num_dp=case['data'])
        self.coord = self.topo.get_coord(rank)
        self.dp_g, self.mp_g, self.pp_g = ds_doubles.make_groups(self.topo, rank)
        self.model = self._build()
        self.ckpt_dir = case.get('ckpt_dir')
        self.pre = self._mk_pre(self.model)
        self.records = []

    def _build(self):
        layers = {name: ds_doubles.ShardedMLP(*w, self.mp_g, self.coord.model, self.case['model'])
                  for name, w in stage_blocks(self.case, self.coord.pipe)}
        return ds_doubles.PipelineModule(layers, self.topo)

    def _mk_pre(self, model):
        with warnings.catch_warnings():
            warnings.simplefilter('ignore')
            return self.Pre(model, data_parallel_group=self.dp_g, model_parallel_group=self.mp_g, pipeline_parallel_group=self.pp_g,
                            factor_checkpoint_dir=self.ckpt_dir, **gpt_kwargs(self.case))

    def grads(self):
        return {n: (None if p.grad is None else p.grad.detach().clone()) for n, p in self.model.named_parameters()}

    def run(self, program):
        c = self.case
        for i, op in enumerate(program):
            kind = op['op']
            simdist.set_phase(f'op{i}:{kind}')
            rec = {'i': i, 'op': kind}
            if kind == 'train':
                self.model.zero_grad(set_to_none=True)
                for micro in range(c.get('accum', 1)):
                    x, r = batch(c, self.coord.pipe, self.coord.data, op['seed'], micro)
                    (loss_fn(self.model(x), r, micro_rows(c, micro)) * (c.get('loss_scale') or 1.0)).backward()
                simdist.set_phase(f'op{i}:train/ddp')
                for p in self.model.parameters():
                    if c.get('loss_scale'):
                        p.grad /= c['loss_scale']          # unscaled before the preconditioner sees them (documented AMP flow)
                    if c['data'] > 1:
                        dist.all_reduce(p.grad, group=self.dp_g)
                        p.grad /= c['data']
                    if c.get('accum', 1) > 1:
                        p.grad /= c['accum']
                if 'grads_before' in self.observe:
                    rec['before'] = self.grads()
                simdist.set_phase(f'op{i}:train/step')
                self.pre.step()
                rec['after'] = self.grads()
                rec['steps'] = self.pre.steps
                gen = torch.Generator().manual_seed(op['seed'] * 7 + 999 + self.coord.pipe)
                with torch.no_grad():
                    for (name, _w), blk in zip(stage_blocks(c, self.coord.pipe), [getattr(self.model, n) for n in self.model.order]):
                        # gradient-independent drift of the FULL weights, applied to this rank's shards (identical across replicas)
                        mp, mr = c['model'], self.coord.model
                        d1 = 0.03 * torch.randn(c['f'], c['h'], generator=gen)
                        db1 = 0.03 * torch.randn(c['f'], generator=gen)
                        d2 = 0.03 * torch.randn(c['h'], c['f'], generator=gen)
                        db2 = 0.03 * torch.randn(c['h'], generator=gen)
                        fs = c['f'] // mp
                        blk.col.weight.add_(d1[mr * fs:(mr + 1) * fs])
                        if blk.col.bias is not None:
                            blk.col.bias.add_(db1[mr * fs:(mr + 1) * fs])
                        blk.row.weight.add_(d2[:, mr * fs:(mr + 1) * fs])
                        if blk.row.bias is not None:
                            blk.row.bias.add_(db2)
            elif kind == 'state_dict':
                sd = self.pre.state_dict(include_factors=op.get('include_factors', True))
                if 'state' in self.observe:
                    rec['state'] = pickle.loads(pickle.dumps(sd))
                if 'local_factors' in self.observe:
                    rec['local'] = {n: {'A': (None if l.a_factor is None else l.a_factor.detach().clone()),
                                        'G': (None if l.g_factor is None else l.g_factor.detach().clone())}
                                    for n, l in self.pre._layers.values()}
            elif kind == 'load':
                sd = self.pre.state_dict(include_factors=True)
                blob = pickle.dumps(sd)
                if 'state' in self.observe:
                    rec['saved'] = pickle.loads(blob)
                if 'local_factors' in self.observe:
                    rec['local_before'] = {n: {'A': (None if l.a_factor is None else l.a_factor.detach().clone()),
                                               'G': (None if l.g_factor is None else l.g_factor.detach().clone())}
                                           for n, l in self.pre._layers.values()}
                if self.ckpt_dir is not None:
                    # a checkpoint written to disk is read back by a later job: every writer has finished by then
                    dist.barrier()
                    if 'state' in self.observe and self.rank == 0:
                        rec['files'] = {fn: torch.load(os.path.join(self.ckpt_dir, fn)) for fn in sorted(os.listdir(self.ckpt_dir))}
                new_model = self._build()
                with torch.no_grad():
                    for (n1, p1), (n2, p2) in zip(self.model.named_parameters(), new_model.named_parameters()):
                        p2.copy_(p1)
                new_pre = self._mk_pre(new_model)
                with warnings.catch_warnings():
                    warnings.simplefilter('ignore')
                    new_pre.load_state_dict(pickle.loads(blob), compute_inverses=op.get('compute_inverses', True))
                self.model, self.pre = new_model, new_pre
                rec['restored'] = {'steps': new_pre.steps, **{k: getattr(new_pre, k) for k in HP_KEYS if not callable(gpt_kwargs(c).get(k))}}
                if 'local_factors' in self.observe:
                    a = self.pre._assignment
                    rec['local'] = {n: {'A': (None if l.a_factor is None else l.a_factor.detach().clone()),
                                        'G': (None if l.g_factor is None else l.g_factor.detach().clone()),
                                        'factor_worker': a.factor_worker(n, 'A'), 'inv_worker': a.inv_worker(n, 'A'),
                                        'has_second_order': l.qa is not None and l.qg is not None}
                                    for n, l in self.pre._layers.values()}
            elif kind == 'snapshot':
                self._snap_live = self.pre.state_dict(include_factors=True)
                self._snap = pickle.loads(pickle.dumps(self._snap_live))
                self._snap_params = [p.detach().clone() for p in self.model.parameters()]
                if self.ckpt_dir is not None:
                    dist.barrier()
                    # keep the per-layer files of this boundary aside (a later state_dict() would overwrite them)
                    import shutil
                    if self.rank == 0:
                        shutil.copytree(self.ckpt_dir, self.ckpt_dir + '.snap', dirs_exist_ok=True)
                    dist.barrier()
            elif kind == 'rollback':
                # load the older checkpoint into the SAME (live) preconditioner and put the weights back
                if self.ckpt_dir is not None:
                    import shutil
                    dist.barrier()
                    if self.rank == 0:
                        shutil.copytree(self.ckpt_dir + '.snap', self.ckpt_dir, dirs_exist_ok=True)
                    dist.barrier()
                with warnings.catch_warnings():
                    warnings.simplefilter('ignore')
                    state = self._snap_live if op.get('live') else pickle.loads(pickle.dumps(self._snap))
                    self.pre.load_state_dict(state, compute_inverses=op.get('compute_inverses', True))
                with torch.no_grad():
                    for p, q in zip(self.model.parameters(), self._snap_params):
                        p.copy_(q)
            elif kind == 'memory_usage':
                rec['memory'] = dict(self.pre.memory_usage())
            else:
                raise ValueError(kind)
            self.records.append(rec)
        if 'assignment' in self.observe:
            a = self.pre._assignment
            self.records.append({'op': 'assignment', 'info': {n: {'inv': a.inv_worker(n, 'A'), 'factor_worker': a.factor_worker(n, 'A'),
                                                                  'is_grad_worker': a.is_grad_worker(n), 'src': a.src_grad_worker(n)}
                                                              for n in a.get_layers()}})
        return self.records


def run_gpt(case, program, schedule=(), flip=False, observe=(), timeout=120.0):
    W = case['pipe'] * case['data'] * case['model']

    def prog(rank):
        return GPTRank(case, rank, observe).run(program)
    return simdist.Sim(W, schedule, flip_timing=flip).run(prog, timeout=timeout)


class _FullStage(nn.Module):
    def __init__(self, case, stage):
        super().__init__()
        self.order = []
        for name, w in stage_blocks(case, stage):
            self.add_module(name, ds_doubles.FullMLP(*w))
            self.order.append(name)

    def forward(self, x):
        for n in self.order:
            x = getattr(self, n)(x)
        return x


def run_reference(case, program, stage=0, observe=()):
    """Unsharded layers of one stage with the real single-process KFACPreconditioner (eigen method), fed the union of
    the data-parallel batches (loss normalised per rank, gradients divided by the data-parallel degree)."""
    from kfac.preconditioner import KFACPreconditioner
    assert not dist.is_initialized()
    model = _FullStage(case, stage)
    kw = dict(compute_method='eigen', compute_eigenvalue_outer_product=case.get('prediv', False),
              accumulation_steps=case.get('accum', 1), update_factors_in_hook=case.get('in_hook', True))
    if case.get('loss_scale'):
        kw['grad_scaler'] = (lambda s=case['loss_scale']: s)
    if case.get('factor_dtype'):
        kw['factor_dtype'] = kmodel.dt(case['factor_dtype'])
    for k in HP_KEYS:
        if k in case.get('hp', {}):
            kw[k] = hp_callable(case['hp'][k])
    with warnings.catch_warnings():
        warnings.simplefilter('ignore')
        pre = KFACPreconditioner(model, **kw)
    recs = []
    for i, op in enumerate(program):
        if op['op'] != 'train':
            continue
        model.zero_grad(set_to_none=True)
        for micro in range(case.get('accum', 1)):
            xs, rs = zip(*[batch(case, stage, dcoord, op['seed'], micro) for dcoord in range(case['data'])])
            bdim = 1 if case.get('seq') else 0          # the batch dimension ([seq, batch, hidden] inputs)
            y = model(torch.cat(xs, bdim))
            nrow = micro_rows(case, micro)
            (sum(loss_fn(yc, r, nrow) for yc, r in zip(y.split(nrow, bdim), rs)) * (case.get('loss_scale') or 1.0)).backward()
        for p in model.parameters():
            p.grad /= case['data'] * case.get('accum', 1) * (case.get('loss_scale') or 1.0)
        rec = {'i': i, 'op': 'train', 'before': {n: p.grad.detach().clone() for n, p in model.named_parameters()}}
        pre.step()
        rec['after'] = {n: p.grad.detach().clone() for n, p in model.named_parameters()}
        sd = pre.state_dict()['layers']
        rec['factors'] = {n: {k: v.detach().clone() for k, v in f.items()} for n, f in sd.items()}
        recs.append(rec)
        gen = torch.Generator().manual_seed(op['seed'] * 7 + 999 + stage)
        with torch.no_grad():
            for n in model.order:
                blk = getattr(model, n)
                d1 = 0.03 * torch.randn(case['f'], case['h'], generator=gen)
                db1 = 0.03 * torch.randn(case['f'], generator=gen)
                d2 = 0.03 * torch.randn(case['h'], case['f'], generator=gen)
                db2 = 0.03 * torch.randn(case['h'], generator=gen)
                blk.col.weight.add_(d1)
                if blk.col.bias is not None:
                    blk.col.bias.add_(db1)
                blk.row.weight.add_(d2)
                if blk.row.bias is not None:
                    blk.row.bias.add_(db2)
    return recs


def shard_of(case, name, full, mp_rank):
    """This model-parallel rank's shard of a full-layer gradient tensor (parameter name like '0.col.weight')."""
    fs = case['f'] // case['model']
    if name.endswith('col.weight') or name.endswith('col.bias'):
        return full[mp_rank * fs:(mp_rank + 1) * fs]
    if name.endswith('row.weight'):
        return full[:, mp_rank * fs:(mp_rank + 1) * fs]
    return full
