"""In-process simulated torch.distributed with a harness-owned schedule.

All ranks are threads of one process; exactly one holds the *baton* at any
time, and every switch happens at a communication event (collective issue,
Future.wait, blocking collective, rank exit) and is decided by the next element
of a drawn list of integers (exhausted => 0 = lowest runnable rank).

Semantics follow real gloo as checked in this sandbox: collectives on a group
are matched in issue order per group; a non-member gets world size -1 / rank -1
and ``None`` from a collective; ``new_group`` must be called by every rank with
the same members in the same order.  Reductions add contributions in ascending
rank order in the tensor's dtype.

Monitors (protocol violations, see DESIGN.md 2.1): mismatch, non-member,
new-group-order, deadlock, incomplete, exception.
"""

from __future__ import annotations

import pickle
import threading
import traceback
from typing import Any, Callable

import torch
import torch.distributed as dist

_ACTIVE: 'Sim | None' = None
_REAL_FUTURE = torch.futures.Future


class SimAbort(BaseException):
    """Unwinds a rank thread when the simulation is aborted."""


class Violation:
    def __init__(self, kind: str, msg: str, rank: int | None = None):
        self.kind, self.msg, self.rank = kind, msg, rank

    def __repr__(self) -> str:
        return f'[{self.kind}] rank={self.rank}: {self.msg}'


class SimGroup(dist.ProcessGroup):
    def __init__(self, sim: 'Sim', gid: int, ranks) -> None:
        ranks = tuple(sorted(int(r) for r in ranks))
        super().__init__(0, len(ranks))
        self.sim = sim
        self.gid = gid
        self.ranks = ranks
        self.slots: list[Slot] = []
        self.next_idx = {r: 0 for r in ranks}

    def __repr__(self) -> str:
        return f'SimGroup#{self.gid}{self.ranks}'


class Slot:
    def __init__(self, group: SimGroup, idx: int, kind: str, sig: tuple, first: int) -> None:
        self.group, self.idx, self.kind, self.sig, self.first = group, idx, kind, sig, first
        self.joined: dict[int, dict] = {}
        self.done = False


class SimFuture(_REAL_FUTURE):  # type: ignore[misc]
    """Python future living inside the simulation; completes in its owner's rank context."""

    def __init__(self, *args: Any, **kwargs: Any) -> None:
        super().__init__()
        sim = _ACTIVE
        self._sim = sim
        self._owner = sim.current if sim is not None else None
        self._sdone = False
        self._svalue: Any = None
        self._sexc: BaseException | None = None
        self._cbs: list[Callable] = []
        self._origin = 'user'
        if sim is not None:
            sim.futures.append(self)

    def done(self) -> bool:
        return self._sdone

    def value(self) -> Any:
        if not self._sdone:
            raise RuntimeError('SimFuture.value() called before completion')
        if self._sexc is not None:
            raise self._sexc
        return self._svalue

    def set_result(self, result: Any) -> None:
        if self._sdone:
            raise RuntimeError('SimFuture completed twice')
        self._svalue = result
        self._sdone = True
        self._fire()

    def set_exception(self, exc: BaseException) -> None:
        self._sexc = exc
        self._sdone = True
        self._fire()

    def _fire(self) -> None:
        cbs, self._cbs = self._cbs, []
        for cb in cbs:
            cb(self)

    def then(self, callback: Callable) -> 'SimFuture':
        child = SimFuture()
        child._owner = self._owner
        child._origin = 'then'

        def run(parent: 'SimFuture') -> None:
            try:
                child.set_result(callback(parent))
            except SimAbort:
                raise
            except BaseException as e:  # noqa: BLE001
                child.set_exception(e)
        if self._sdone:
            run(self)
        else:
            self._cbs.append(run)
        return child

    def add_done_callback(self, callback: Callable) -> None:
        def run(parent: 'SimFuture') -> None:
            callback(parent)
        if self._sdone:
            run(self)
        else:
            self._cbs.append(run)

    def wait(self) -> Any:
        sim = self._sim
        if sim is None or sim is not _ACTIVE:
            if not self._sdone:
                raise RuntimeError('SimFuture.wait() outside its simulation')
            return self.value()
        me = sim.current
        sim.yield_point(me)
        while not self._sdone:
            sim.run_pending(me)
            if self._sdone:
                break
            sim.block(me, lambda: self._sdone, f'Future.wait() [{self._origin}]')
        return self.value()


class SimWork:
    def __init__(self, fut: SimFuture) -> None:
        self._fut = fut

    def get_future(self) -> SimFuture:
        return self._fut

    def wait(self, timeout: Any = None) -> bool:
        self._fut.wait()
        return True

    def is_completed(self) -> bool:
        return self._fut.done()


class SimResult:
    def __init__(self, sim: 'Sim') -> None:
        self.results = sim.results
        self.violations = sim.violations
        self.trace = sim.trace
        self.errors = sim.errors
        self.switches = sim.switches
        self.newgroups = sim.newgroup_calls
        self.timed_out = sim.timed_out
        self.groups_used = sim.groups_used()

    @property
    def ok(self) -> bool:
        return not self.violations and not self.timed_out


class Sim:
    def __init__(self, world: int, schedule=(), flip_timing: bool = False) -> None:
        self.world = world
        self.choices = list(schedule)
        self.ci = 0
        self.flip_timing = flip_timing
        self.current: int | None = None
        self.state = ['new'] * world
        self.blocked_pred: list[Callable | None] = [None] * world
        self.blocked_what = [''] * world
        self.pending: list[list[Callable]] = [[] for _ in range(world)]
        self.sems = [threading.Semaphore(0) for _ in range(world)]
        self.finished = threading.Event()
        self.violations: list[Violation] = []
        self.trace: list[list[dict]] = [[] for _ in range(world)]
        self.errors: dict[int, str] = {}
        self.results: list[Any] = [None] * world
        self.futures: list[SimFuture] = []
        self.switches = 0
        self.aborted = False
        self.timed_out = False
        self.groups: list[SimGroup] = []
        self.world_group = self._mk_group(range(world))
        self.newgroup_calls: list[list[tuple]] = [[] for _ in range(world)]
        self.newgroup_objs: dict[tuple, SimGroup] = {}
        self.phase = ['' for _ in range(world)]   # free-form marker set by programs (for trace attribution)

    # -- scheduling -------------------------------------------------------
    def _choice(self) -> int:
        if self.ci < len(self.choices):
            c = self.choices[self.ci]
            self.ci += 1
            return int(c)
        return 0

    def _runnable(self, r: int) -> bool:
        s = self.state[r]
        if s == 'run':
            return True
        if s == 'blocked':
            return bool(self.pending[r]) or bool(self.blocked_pred[r] and self.blocked_pred[r]())
        return False

    def _switch(self, me: int | None) -> None:
        """Pass the baton to a drawn runnable rank and wait until it comes back to `me`."""
        live = me is not None and self.state[me] != 'done'
        if self.aborted:
            if live:
                raise SimAbort()
            return
        cands = [r for r in range(self.world) if self._runnable(r)]
        if not cands:
            if all(s == 'done' for s in self.state):
                self.finished.set()
                return
            self._deadlock()
            if live:
                raise SimAbort()
            return
        nxt = cands[self._choice() % len(cands)]
        if nxt == me:
            return
        self.switches += 1
        self.current = nxt
        self.sems[nxt].release()
        if me is not None and self.state[me] != 'done':
            self.sems[me].acquire()
            if self.aborted:
                raise SimAbort()

    def _deadlock(self) -> None:
        desc = {r: (self.state[r] + (':' + self.blocked_what[r] if self.state[r] == 'blocked' else '')) for r in range(self.world)}
        self.violations.append(Violation('deadlock', f'no rank can make progress: {desc}'))
        self.abort()

    def abort(self) -> None:
        self.aborted = True
        self.finished.set()
        for s in self.sems:
            s.release()

    def violate(self, kind: str, msg: str, fatal: bool = True) -> None:
        self.violations.append(Violation(kind, msg, self.current))
        if fatal:
            self.abort()
            raise SimAbort()

    def yield_point(self, me: int) -> None:
        if self.aborted:
            raise SimAbort()
        self._switch(me)
        self.run_pending(me)

    def block(self, me: int, pred: Callable, what: str) -> None:
        self.state[me] = 'blocked'
        self.blocked_pred[me] = pred
        self.blocked_what[me] = what
        try:
            self._switch(me)
        finally:
            self.state[me] = 'run' if self.state[me] == 'blocked' else self.state[me]
            self.blocked_pred[me] = None

    def run_pending(self, me: int) -> None:
        while self.pending[me]:
            fn = self.pending[me].pop(0)
            fn()

    # -- groups -------------------------------------------------------------
    def _mk_group(self, ranks) -> SimGroup:
        g = SimGroup(self, len(self.groups), ranks)
        self.groups.append(g)
        return g

    def resolve(self, group: Any) -> SimGroup:
        if group is None:
            return self.world_group
        if isinstance(group, SimGroup):
            return group
        raise TypeError(f'not a simulated group: {group!r}')

    def new_group(self, ranks=None, *args: Any, **kwargs: Any) -> SimGroup:
        me = self.current
        members = tuple(sorted(range(self.world) if ranks is None else [int(r) for r in ranks]))
        self.yield_point(me)
        i = len(self.newgroup_calls[me])
        self.newgroup_calls[me].append(members)
        key = (i, members)
        if key not in self.newgroup_objs:
            self.newgroup_objs[key] = self._mk_group(members)
        for r in range(self.world):
            if r != me and len(self.newgroup_calls[r]) > i and self.newgroup_calls[r][i] != members:
                self.violations.append(Violation(
                    'new-group-order',
                    f'new_group call #{i}: rank {me} creates {members} but rank {r} created {self.newgroup_calls[r][i]}', me))
                break
        self.trace[me].append({'kind': 'new_group', 'ranks': members, 'idx': i, 'phase': self.phase[me]})
        return self.newgroup_objs[key]

    def groups_used(self) -> int:
        return sum(1 for g in self.groups if g.slots)

    # -- collectives --------------------------------------------------------
    def collective(self, kind: str, group: Any, sig: tuple, payload: dict, async_op: bool):
        """payload: {'read': callable -> data (tensor(s) clone), 'write': callable(result_for_me)}"""
        me = self.current
        g = self.resolve(group)
        if me not in g.ranks:
            self.violations.append(Violation('non-member', f'rank {me} issued {kind} on {g} which it is not a member of', me))
            self.trace[me].append({'kind': kind, 'group': g.ranks, 'non_member': True, 'phase': self.phase[me]})
            return None
        self.yield_point(me)
        idx = g.next_idx[me]
        g.next_idx[me] += 1
        if idx == len(g.slots):
            g.slots.append(Slot(g, idx, kind, sig, me))
        slot = g.slots[idx]
        ev = {'kind': kind, 'group': g.ranks, 'gid': g.gid, 'idx': idx, 'async': async_op, 'phase': self.phase[me]}
        ev.update(payload.get('ev', {}))
        self.trace[me].append(ev)
        if slot.kind != kind or slot.sig != sig:
            self.violate('mismatch', f'operation #{idx} on {g}: rank {me} issues {kind}{sig} but rank {slot.first} issued {slot.kind}{slot.sig}')
        bits = self._choice()
        if self.flip_timing:
            bits = ~bits
        read_early = not (bits & 1)
        write_early = not (bits & 2)
        fut = SimFuture()
        fut._origin = f'{kind}#{idx}@{g.ranks}'
        entry = {'payload': payload, 'fut': fut, 'write_early': write_early,
                 'data': payload['read']() if read_early else None}
        slot.joined[me] = entry
        if len(slot.joined) == len(g.ranks):
            self._complete(slot)
        if async_op:
            return SimWork(fut)
        fut.wait()
        return None

    def _complete(self, slot: Slot) -> None:
        g = slot.group
        data = {}
        for r in g.ranks:
            e = slot.joined[r]
            data[r] = e['data'] if e['data'] is not None else e['payload']['read']()
        compute = slot.joined[g.ranks[0]]['payload']['compute']
        results = compute(g.ranks, data)          # {rank: result}
        slot.done = True
        for r in g.ranks:
            e = slot.joined[r]
            res = results[r]

            def deliver(e=e, res=res, early=e['write_early']):
                if not early:
                    e['payload']['write'](res)
                e['fut'].set_result(e['payload']['value']())
            if e['write_early']:
                e['payload']['write'](res)
            self.pending[r].append(deliver)

    # -- running --------------------------------------------------------------
    def _thread_main(self, r: int, fn: Callable) -> None:
        self.sems[r].acquire()
        if self.aborted:
            self.state[r] = 'done'
            return
        self.state[r] = 'run'
        try:
            self.results[r] = fn(r)
            self.run_pending(r)
        except SimAbort:
            self.state[r] = 'done'
            return
        except BaseException as e:  # noqa: BLE001
            tb = traceback.format_exc()
            self.errors[r] = tb
            self.violations.append(Violation('exception', f'{type(e).__name__}: {e}\n{tb[-1500:]}', r))
            self.state[r] = 'done'
            self.abort()
            return
        self.state[r] = 'done'
        try:
            self._switch(r)
        except SimAbort:
            pass

    def run(self, fn: Callable[[int], Any], timeout: float = 120.0) -> SimResult:
        global _ACTIVE
        assert _ACTIVE is None, 'nested simulations are not supported'
        _ACTIVE = self
        saved = _patch(self)
        threads = [threading.Thread(target=self._thread_main, args=(r, fn), daemon=True) for r in range(self.world)]
        try:
            for t in threads:
                t.start()
            for r in range(self.world):
                self.state[r] = 'run'
            first = self._choice() % self.world
            self.current = first
            self.sems[first].release()
            if not self.finished.wait(timeout):
                self.timed_out = True
                self.abort()
            for t in threads:
                t.join(5.0)
            if any(t.is_alive() for t in threads):
                self.timed_out = True
            if not self.aborted and not self.timed_out:
                # results of operations that completed after their owner's last schedule point: a complete
                # but never-awaited future is legitimate (e.g. a reduced factor nobody reads before the program ends)
                for r in range(self.world):
                    self.current = r
                    try:
                        self.run_pending(r)
                    except BaseException as e:  # noqa: BLE001
                        self.violations.append(Violation('exception', f'in completion callback: {type(e).__name__}: {e}', r))
        finally:
            _unpatch(saved)
            _ACTIVE = None
        if not self.aborted or not self.violations:
            self._final_monitors()
        return SimResult(self)

    def _final_monitors(self) -> None:
        ref = self.newgroup_calls[0]
        for r in range(1, self.world):
            if self.newgroup_calls[r] != ref:
                if not any(v.kind == 'new-group-order' for v in self.violations):
                    self.violations.append(Violation('new-group-order', f'rank 0 created groups {ref} but rank {r} created {self.newgroup_calls[r]}', r))
                break
        for g in self.groups:
            for s in g.slots:
                if not s.done:
                    missing = [r for r in g.ranks if r not in s.joined]
                    self.violations.append(Violation('incomplete', f'{s.kind} #{s.idx} on {g} was never joined by ranks {missing}'))
                    break
        stuck = [f for f in self.futures if not f._sdone]
        if stuck and not any(v.kind == 'incomplete' for v in self.violations):
            self.violations.append(Violation('incomplete', f'{len(stuck)} future(s) handed to the code can never complete '
                                                           f'(first: origin={stuck[0]._origin}, owner rank {stuck[0]._owner}); e.g. a bucket that was never flushed'))


# -- patched torch.distributed API ---------------------------------------------

def _sig_tensor(t: torch.Tensor) -> tuple:
    return (tuple(t.shape), str(t.dtype))


def _all_reduce(tensor, op=None, group=None, async_op=False):
    sim = _ACTIVE
    if op is not None and op != dist.ReduceOp.SUM:
        raise NotImplementedError('simulated all_reduce supports SUM only')

    def compute(ranks, data):
        acc = data[ranks[0]].clone()
        for r in ranks[1:]:
            acc += data[r]
        return {r: acc for r in ranks}

    rd, wr = _rw(tensor)
    payload = {'read': rd, 'write': wr, 'value': lambda: [tensor],
               'compute': compute, 'ev': {'numel': tensor.numel(), 'dtype': str(tensor.dtype), 'shape': tuple(tensor.shape)}}
    return sim.collective('all_reduce', group, _sig_tensor(tensor), payload, async_op)


def _dense(t):
    """True if the tensor occupies one gap-free block of storage (any permutation of a contiguous layout)."""
    if t.numel() == 0:
        return True
    span = 1 + sum((sz - 1) * st for sz, st in zip(t.shape, t.stride()))
    return span == t.numel() and all(st > 0 for sz, st in zip(t.shape, t.stride()) if sz > 1)


def _raw(t):
    """The tensor's elements in STORAGE order as a 1-d view: backends such as gloo transmit the memory block and ignore the strides,
    so a dense non-contiguous buffer is filled / read in memory order, not in logical order."""
    if t.is_contiguous() or not _dense(t):
        return None
    return torch.as_strided(t, (t.numel(),), (1,), t.storage_offset())


def _store(dst, src):
    """A backend writes the result into the buffer's memory; torch's Python-level guard against in-place updates of inference
    tensors outside inference mode does not apply to it (the completion may be delivered after the caller left the block)."""
    if dst.is_inference():
        with torch.inference_mode():
            dst.copy_(src)
    else:
        dst.copy_(src)


def _rw(tensor):
    raw = _raw(tensor)
    if raw is None:
        return (lambda: tensor.detach().clone().reshape(-1)), (lambda res: _store(tensor, res.reshape(tensor.shape)))
    return (lambda: raw.detach().clone()), (lambda res: _store(raw, res))


def _broadcast(tensor, src=None, group=None, async_op=False, group_src=None):
    sim = _ACTIVE
    g = sim.resolve(group)
    if src is None and group_src is not None:
        src = g.ranks[group_src]
    if sim.current in g.ranks and src not in g.ranks:
        sim.violate('mismatch', f'broadcast root {src} is not a member of {g} (issued by rank {sim.current})')

    def compute(ranks, data):
        return {r: data[src] for r in ranks}

    rd, wr = _rw(tensor)
    payload = {'read': rd, 'write': wr, 'value': lambda: [tensor],
               'compute': compute, 'ev': {'numel': tensor.numel(), 'dtype': str(tensor.dtype), 'shape': tuple(tensor.shape), 'root': src}}
    return sim.collective('broadcast', group, _sig_tensor(tensor) + (int(src),), payload, async_op)


def _all_gather(tensor_list, tensor, group=None, async_op=False):
    sim = _ACTIVE

    def compute(ranks, data):
        return {r: [data[m] for m in ranks] for r in ranks}

    def write(res):
        if len(tensor_list) != len(res):
            raise RuntimeError(f'all_gather output list has {len(tensor_list)} entries for a group of {len(res)}')
        for dst, s in zip(tensor_list, res):
            dst.copy_(s)

    payload = {'read': lambda: tensor.detach().clone(), 'write': write, 'value': lambda: [tensor_list], 'compute': compute,
               'ev': {'numel': tensor.numel(), 'dtype': str(tensor.dtype), 'shape': tuple(tensor.shape)}}
    return sim.collective('all_gather', group, _sig_tensor(tensor), payload, async_op)


def _reduce_scatter(output, input_list, op=None, group=None, async_op=False):
    sim = _ACTIVE

    def compute(ranks, data):
        out = {}
        for i, r in enumerate(ranks):
            acc = data[ranks[0]][i].clone()
            for m in ranks[1:]:
                acc += data[m][i]
            out[r] = acc
        return out

    def read():
        for t in input_list:
            if not t.is_contiguous():
                raise RuntimeError('reduce_scatter input tensors must be contiguous')
        return [t.detach().clone() for t in input_list]

    sig = (tuple(output.shape), str(output.dtype), len(input_list))
    payload = {'read': read, 'write': lambda res: output.copy_(res), 'value': lambda: [output], 'compute': compute,
               'ev': {'numel': output.numel(), 'dtype': str(output.dtype), 'shape': tuple(output.shape)}}
    g = sim.resolve(group)
    if sim.current in g.ranks and len(input_list) != len(g.ranks):
        raise RuntimeError(f'reduce_scatter input list has {len(input_list)} entries for a group of {len(g.ranks)}')
    for t in input_list:
        if tuple(t.shape) != tuple(output.shape):
            raise RuntimeError(f'reduce_scatter input shape {tuple(t.shape)} != output shape {tuple(output.shape)}')
    return sim.collective('reduce_scatter', group, sig, payload, async_op)


def _all_gather_object(object_list, obj, group=None):
    sim = _ACTIVE
    blob = pickle.dumps(obj)

    def compute(ranks, data):
        return {r: [data[m] for m in ranks] for r in ranks}

    def write(res):
        if len(object_list) != len(res):
            raise RuntimeError(f'all_gather_object output list has {len(object_list)} entries for a group of {len(res)}')
        for i, b in enumerate(res):
            object_list[i] = pickle.loads(b)

    payload = {'read': lambda: blob, 'write': write, 'value': lambda: None, 'compute': compute, 'ev': {'bytes': len(blob)}}
    return sim.collective('all_gather_object', group, (), payload, False)


def _barrier(group=None, async_op=False, device_ids=None):
    sim = _ACTIVE
    payload = {'read': lambda: 0, 'write': lambda res: None, 'value': lambda: None,
               'compute': lambda ranks, data: {r: None for r in ranks}, 'ev': {}}
    return sim.collective('barrier', group, (), payload, async_op)


def _get_rank(group=None):
    sim = _ACTIVE
    g = sim.resolve(group)
    return g.ranks.index(sim.current) if sim.current in g.ranks else -1


def _get_world_size(group=None):
    sim = _ACTIVE
    g = sim.resolve(group)
    return len(g.ranks) if sim.current in g.ranks else -1


def _new_group(ranks=None, *a, **k):
    return _ACTIVE.new_group(ranks, *a, **k)


def _get_global_rank(group, group_rank):
    return _ACTIVE.resolve(group).ranks[group_rank]


def _get_process_group_ranks(group):
    return list(_ACTIVE.resolve(group).ranks)


_PATCHES = {
    'is_initialized': lambda: True,
    'is_available': lambda: True,
    'get_rank': _get_rank,
    'get_world_size': _get_world_size,
    'new_group': _new_group,
    'all_reduce': _all_reduce,
    'broadcast': _broadcast,
    'all_gather': _all_gather,
    'reduce_scatter': _reduce_scatter,
    'all_gather_object': _all_gather_object,
    'barrier': _barrier,
    'get_backend': lambda group=None: 'gloo',
    'get_global_rank': _get_global_rank,
    'get_process_group_ranks': _get_process_group_ranks,
}


def _patch(sim: Sim) -> dict:
    saved = {k: getattr(dist, k, None) for k in _PATCHES}
    for k, v in _PATCHES.items():
        setattr(dist, k, v)
    saved['__future__'] = torch.futures.Future
    torch.futures.Future = SimFuture
    return saved


def _unpatch(saved: dict) -> None:
    torch.futures.Future = saved.pop('__future__')
    for k, v in saved.items():
        if v is None:
            try:
                delattr(dist, k)
            except AttributeError:
                pass
        else:
            setattr(dist, k, v)


def set_phase(label: str) -> None:
    """Programs may tag subsequent trace events of the current rank (e.g. 'step3/backward')."""
    sim = _ACTIVE
    if sim is not None and sim.current is not None:
        sim.phase[sim.current] = label


def current_rank() -> int:
    return _ACTIVE.current
