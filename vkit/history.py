"""Lock-step execution of the real KFACPreconditioner (single process) and the float64 reference (refkfac).

The twin model (no K-FAC) is slaved to the real model's parameters; its own hooks record layer inputs / output
gradients and its autograd gradients give D.  Every comparison returns None or (key, message).
"""

from __future__ import annotations

import math
import pickle
import warnings

import torch

from vkit import kmodel, refkfac
from vkit.gens import hp_callable
from vkit.kaisa import HP_KEYS

INT_HP = ('factor_update_steps', 'inv_update_steps')


class LockStep:
    def __init__(self, case):
        from kfac.preconditioner import KFACPreconditioner
        self.KFACPreconditioner = KFACPreconditioner
        self.case = case
        self.pd = kmodel.dt(case.get('param_dtype', 'float32'))
        self.fd = kmodel.dt(case.get('factor_dtype'))
        self.model = kmodel.build_model(case['spec'], self.pd)
        self.twin = kmodel.build_model(case['spec'], self.pd)
        self.names = kmodel.kfac_layer_names(self.model)
        self.mods = dict(self.model.named_modules())
        self.tmods = dict(self.twin.named_modules())
        self.rec = kmodel.Recorder(self.twin, self.names)
        # loss scale: None, a constant, or {'table': [...]} = dynamic loss scaling (value of training iteration i is table[i % len])
        self.scale_json = case.get('loss_scale')
        self.scale = self._scale_at(0)
        self.iter = 0
        self.hp_json = dict(case.get('hp', {}))
        self.kw = dict(
            compute_method=case.get('method', 'eigen'),
            compute_eigenvalue_outer_product=case.get('prediv', False),
            colocate_factors=case.get('colocate', True),
            accumulation_steps=case.get('accum', 1),
            update_factors_in_hook=case.get('in_hook', True),
            factor_dtype=self.fd,
            inv_dtype=kmodel.dt(case.get('inv_dtype', 'float32')),
        )
        for k in HP_KEYS:
            if k in self.hp_json:
                self.kw[k] = hp_callable(self.hp_json[k])
        if self.scale is not None:
            self.kw['grad_scaler'] = (lambda: self.scale)
        with warnings.catch_warnings():
            warnings.simplefilter('ignore')
            self.pre = KFACPreconditioner(self.model, **self.kw)
        self.ref = refkfac.RefKFAC(
            {n: self.tmods[n] for n in self.names}, method=case.get('method', 'eigen'), prediv=case.get('prediv', False),
            hp={k: hp_callable(self.hp_json.get(k, d)) for k, d in
                (('factor_update_steps', 1), ('inv_update_steps', 1), ('damping', 0.001), ('factor_decay', 0.95), ('kl_clip', 0.001), ('lr', 0.1))},
            accumulation=case.get('accum', 1), in_hook=case.get('in_hook', True),
            factor_dtype=self.fd, grad_scale=self.scale)
        self.live = [v for v in list(self.kw.values()) + list(self.ref.hp.values()) if hasattr(v, 'set_iter')]
        # optional bystander: a second, independent model of the same architecture (hence the same layer names) with its own
        # preconditioner, created later in the same process and trained in between; it must not influence the first one
        self.by_model = self.by_pre = None
        self.by_count = 0
        if case.get('bystander'):
            self.by_model = kmodel.build_model(dict(case['spec'], seed=case['spec'].get('seed', 0) + 1), self.pd)
            kw2 = dict(self.kw)
            for k in HP_KEYS:
                if k in self.hp_json:
                    kw2[k] = hp_callable(self.hp_json[k])
            with warnings.catch_warnings():
                warnings.simplefilter('ignore')
                self.by_pre = KFACPreconditioner(self.by_model, **kw2)
        self.snap = None
        self.sched = None
        self.sched_json = case.get('scheduler')
        if self.sched_json:
            self._mk_sched()
        self.updates = 0
        self.max_rows = 1
        self.eps_grad = max(refkfac.EPS[torch.float32], refkfac.EPS[kmodel.dt(case.get('inv_dtype', 'float32'))], refkfac.EPS[self.pd])
        if case.get('method') == 'inverse':
            self.eps_grad = max(self.eps_grad, refkfac.EPS[self.fd or self.pd])
        self.eps_factor = refkfac.EPS[self.fd or self.pd]
        # optional mixed precision: forward passes run inside torch.autocast (the documented AMP use, together with a grad scaler)
        self.autocast = kmodel.dt(case.get('autocast'))
        if self.autocast is not None and self.fd is None:
            # factor_dtype=None is documented as "the data type of intermediate values", which is the autocast dtype here
            self.eps_factor = max(self.eps_factor, refkfac.EPS[self.autocast])
        self.stats = {'worst_grad': 0.0, 'worst_factor': 0.0, 'max_tol': 0.0, 'informative_steps': 0}
        self.events = []      # (step index, factor_update, refresh) for non-triviality rules

    def bystander_micro(self, seed):
        """One train-mode micro-batch of the bystander; it steps whenever it has seen accumulation_steps of them."""
        if self.by_model is None:
            return
        c = self.case
        accum = c.get('accum', 1)
        if self.by_count == 0:
            self.by_model.zero_grad(set_to_none=True)
        self.by_model.train()
        x = kmodel.make_input(c['spec'], c.get('N', 2), seed * 7 + 4243 + self.by_count, c.get('style', 'gauss'), self.pd)
        loss = kmodel.loss_of(self.by_model(x), seed + 17, c.get('N', 2))
        ((loss * self.scale) if self.scale else loss).backward()
        self.by_count += 1
        if self.by_count == accum:
            self.by_count = 0
            for p in self.by_model.parameters():
                if p.grad is not None:
                    p.grad /= ((self.scale or 1.0) * accum)
            self.by_pre.step()

    def _scale_at(self, i):
        v = self.scale_json
        if isinstance(v, dict):
            return v['table'][i % len(v['table'])]
        return v

    def _mk_sched(self):
        from kfac.scheduler import LambdaParamScheduler
        self.sched = LambdaParamScheduler(self.pre, **{k + '_lambda': hp_callable(v) for k, v in self.sched_json.items()})

    # ------------------------------------------------------------------
    def factors(self):
        sd = self.pre.state_dict()['layers']
        return {n: (sd[n]['A'], sd[n]['G']) for n in self.names}

    def _fwd(self, model, x, lseed, n):
        if self.autocast is None:
            return kmodel.loss_of(model(x), lseed, n, self.case.get('loss_style', 'mix'))
        with torch.autocast('cpu', dtype=self.autocast):
            return kmodel.loss_of(model(x), lseed, n, self.case.get('loss_style', 'mix')).float()

    def _pass(self, x, lseed, n, train=True):
        loss = self._fwd(self.model, x, lseed, n)
        ((loss * self.scale) if self.scale else loss).backward()
        self.rec.enabled = train
        loss2 = self._fwd(self.twin, x, lseed, n)
        ((loss2 * self.scale) if self.scale else loss2).backward()
        return None, None

    def train_iter(self, seed, sizes=None, reset_after=None, check=True, by=(), extra_fwd=0, fwd_only_at=None):
        c = self.case
        accum = c.get('accum', 1)
        sizes = sizes or [c.get('N', 2)] * accum
        self.scale = self._scale_at(self.iter)
        self.ref.grad_scale = self.scale
        for v in self.live:
            v.set_iter(self.iter)
        self.iter += 1
        self.model.train()
        self.twin.train()
        for m in (self.model, self.twin):
            m.zero_grad(set_to_none=self.case.get('zero_to_none', True))
        before = self.factors()
        if extra_fwd and not self.ref.is_factor_step():
            # on a step that is not a factor-update step K-FAC ignores train-mode passes, so their number does not matter:
            # extra forward-only passes (an irregular window at the end of an epoch, a statistics pass) must change nothing
            for j in range(extra_fwd):
                xe = kmodel.make_input(c['spec'], c.get('N', 2), seed * 31 + 977 + j, c.get('style', 'gauss'), self.pd)
                with torch.no_grad():
                    self.model(xe)
                    self.twin(xe)
            self.rec.pop()
        plan = list(range(accum))
        if reset_after is not None and not c.get('in_hook', True) and 0 < reset_after <= accum:
            plan = list(range(reset_after)) + ['reset'] + list(range(accum))
        for item in plan:
            if item == 'reset':
                self.pre.reset_batch()
                self.ref.reset_batch()
                self.rec.pop()
                for m in (self.model, self.twin):
                    m.zero_grad(set_to_none=True)
                if isinstance(self.scale_json, dict):
                    # the usual reason for discarding a batch is an overflow, after which a dynamic loss scale backs off
                    self.scale = self._scale_at(self.iter)
                    self.ref.grad_scale = self.scale
                    self.iter += 1
                continue
            n = sizes[item % len(sizes)]
            x = kmodel.make_input(c['spec'], n, seed * 1009 + item * 101 + 1, c.get('style', 'gauss'), self.pd)
            self._pass(x, seed * 2003 + item * 211 + 5, n)
            recs = self.rec.pop()
            self.max_rows = max(self.max_rows, max(refkfac.input_rows(self.tmods[nm], recs[nm][0][0]).shape[0] for nm in self.names))
            self.ref.observe([{nm: (recs[nm][0][0], recs[nm][1][0]) for nm in self.names}])
            if item in by:
                self.bystander_micro(seed + item)
            if fwd_only_at is not None and item == fwd_only_at % accum and not c.get('in_hook', True) and self.ref.is_factor_step():
                # a train-mode forward pass without a backward pass inside the window (e.g. a no_grad pseudo-label pass), factors updated
                # in step(): the layer has seen one more input batch than output gradients; each factor is the mean over what IT has seen
                xe = kmodel.make_input(c['spec'], c.get('N', 2), seed * 31 + 555 + item, c.get('style', 'gauss'), self.pd)
                import contextlib
                amp = torch.autocast('cpu', dtype=self.autocast) if self.autocast is not None else contextlib.nullcontext()
                with torch.no_grad(), amp:          # inside the same autocast region as every other forward pass of the run
                    self.model(xe)
                    self.twin(xe)
                recs = self.rec.pop()
                self.ref.observe([{nm: (recs[nm][0][0], None) for nm in self.names}])
        for m in (self.model, self.twin):
            for p in m.parameters():
                if p.grad is not None:
                    if self.scale:
                        p.grad /= self.scale
                    if accum > 1:
                        p.grad /= accum
        tg = kmodel.grads_of(self.twin)
        mg = kmodel.grads_of(self.model)
        for k in tg:
            if (tg[k] is None) != (mg[k] is None) or (tg[k] is not None and not torch.equal(tg[k], mg[k])):
                return ('autograd-changed', f'gradient of {k} before step() differs between the model with K-FAC hooks and its twin without')
        D = {n: kmodel.combined_grad(self.tmods[n], tg, n) for n in self.names}
        step_index = self.ref.steps
        try:
            self.pre.step()
        except Exception as e:  # noqa: BLE001
            return ('exception', f'step() raised {type(e).__name__}: {e} at step {step_index}')
        exp, info = self.ref.step(D)
        self.events.append((step_index, self.ref.last_factor_update, self.ref.last_refresh, info['nu']))
        if self.ref.last_factor_update:
            self.updates += 1
        if self.pre.steps != self.ref.steps:
            return ('step-count', f'preconditioner.steps = {self.pre.steps}, reference counts {self.ref.steps}')
        bad = None
        if check:
            bad = self._compare_factors(before, step_index) or self._compare_grads(exp, info, step_index)
        with torch.no_grad():
            for (n1, p1), (n2, p2) in zip(self.model.named_parameters(), self.twin.named_parameters()):
                if p1.grad is not None and torch.isfinite(p1.grad).all():
                    # bounded update (keeps weights and data O(1) over long histories even without clipping)
                    p1.add_(p1.grad / max(1.0, p1.grad.abs().max().item()), alpha=-self.case.get('sgd_lr', 0.05))
                p2.copy_(p1)
        return bad

    def _compare_factors(self, before, step_index):
        after = self.factors()
        changed = self.ref.last_factor_update
        tol = 16 * (self.updates + 1) * max(1.0, math.sqrt(self.max_rows)) * self.eps_factor
        for n in self.names:
            L = self.ref.layers[n]
            for which, idx, refF in (('A', 0, L.A), ('G', 1, L.G)):
                a, b = before[n][idx], after[n][idx]
                if not changed:
                    same = (a is None and b is None) or (a is not None and b is not None and a.dtype == b.dtype and torch.equal(a, b))
                    if not same:
                        return ('factor-changed-off-schedule', f'step {step_index} is not a factor-update step but factor {which} of layer {n} changed')
                    continue
                if b is None:
                    return ('factor-missing', f'step {step_index}: factor {which} of layer {n} is None after a factor-update step')
                want = self.fd or self.pd
                if b.dtype != want and not (self.autocast is not None and self.fd is None):
                    if self.autocast is not None and which == 'A' and b.dtype == self.autocast:
                        return ('autocast-a-factor-dtype', f'step {step_index}: factor A of layer {n} is stored in {b.dtype} although factor_dtype={want} was '
                                                           f'requested: the forward pre-hook computed it inside the caller\'s torch.autocast region')
                    return ('factor-dtype', f'step {step_index}: factor {which} of layer {n} has dtype {b.dtype}, requested {want}')
                b64 = b.to(torch.float64)
                if tuple(b64.shape) != tuple(refF.shape):
                    return ('factor-shape', f'factor {which} of {n} has shape {tuple(b64.shape)}, reference {tuple(refF.shape)}')
                if want == torch.float16:
                    # float16 factors: products of small gradients underflow (that is what loss scaling is for), so no relative bound
                    # holds for the values; what must hold is that nothing overflows while the true values are far inside the range
                    if refF.abs().max().item() < 1e3 and not torch.isfinite(b64).all():
                        return ('factor-mismatch', f'step {step_index}: factor {which} of layer {n} is not finite in float16 although the true values '
                                                   f'(max {refF.abs().max().item():.3g}) are far inside the float16 range')
                    if not torch.isfinite(b64).all():
                        continue          # a genuine float16 overflow (true values near the range limit): nothing further to compare
                if not torch.equal(b64, b64.t()):
                    return ('factor-asymmetric', f'step {step_index}: factor {which} of layer {n} is not exactly symmetric')
                lmin = torch.linalg.eigvalsh(b64).min().item()
                # relative bound, plus the absolute resolution of the factor's dtype: below its smallest normal number (6.1e-5 for float16)
                # entries are multiples of one subnormal step (6e-8), so the stored matrix of a tiny true factor can be indefinite by
                # about one step per row however it is computed
                fi = torch.finfo(b.dtype)
                if lmin < -(64 * self.eps_factor * max(b64.norm().item(), 1e-30) + fi.smallest_normal * fi.eps) * b64.shape[0]:
                    return ('factor-not-psd', f'step {step_index}: factor {which} of layer {n} has eigenvalue {lmin:.3e}')
                if want == torch.float16:
                    continue
                err = (b64 - refF).norm().item() / max(refF.norm().item(), 1e-300)
                self.stats['worst_factor'] = max(self.stats['worst_factor'], err / tol)
                if err > tol:
                    return ('factor-mismatch', f'step {step_index}: factor {which} of layer {n} differs from decay*previous+(1-decay)*M by '
                                               f'{err:.3e} relative (tolerance {tol:.3e}, {self.updates} updates, factor dtype {want})')
        return None

    def _compare_grads(self, exp, info, step_index):
        after = kmodel.grads_of(self.model)
        tols = {n: refkfac.tolerance(self._kappa(n, info), exp[n].numel(), self.eps_grad) for n in self.names}
        tmax = max(tols.values())
        for n in self.names:
            tol = tols[n] + (tmax if info['nu'] < 1.0 else 0.0)
            # the reference factors are float64 while the real ones are rounded in the factor dtype: conditioning amplifies that too
            tol = tol + 16 * (self.updates + 1) * self.eps_factor * self._kappa(n, info) * (2 if info['nu'] < 1.0 else 1)
            if tol > 5e-2:
                continue
            self.stats['informative_steps'] += 1
            self.stats['max_tol'] = max(self.stats['max_tol'], tol)
            got = kmodel.combined_grad(self.mods[n], after, n)
            ref = exp[n]
            rn = ref.norm().item()
            err = (got - ref).norm().item()
            bound = tol * rn + 1e-30
            self.stats['worst_grad'] = max(self.stats['worst_grad'], err / bound)
            if err > bound:
                return ('grad-mismatch', f'step {step_index}: gradient of layer {n} differs from the reference K-FAC state machine by '
                                         f'{err / max(rn, 1e-300):.3e} relative (tolerance {tol:.3e}; refresh={self.ref.last_refresh}, '
                                         f'factor_update={self.ref.last_factor_update}, nu_ref={info["nu"]:.4g})')
        return None

    def _kappa(self, n, info):
        k = info['kappa'][n]
        if self.case.get('method') == 'inverse':
            A_s, G_s, lam = self.ref.layers[n].snap
            ka = torch.linalg.cond(A_s + lam * torch.eye(A_s.shape[0], dtype=torch.float64)).item()
            kg = torch.linalg.cond(G_s + lam * torch.eye(G_s.shape[0], dtype=torch.float64)).item()
            return ka + kg
        return k

    # ------------------------------------------------------------------
    def eval_pass(self, seed):
        c = self.case
        before = self.factors()
        steps = self.pre.steps
        mem = dict(self.pre.memory_usage())
        self.model.eval()
        self.twin.eval()
        x = kmodel.make_input(c['spec'], c.get('N', 2), seed * 1009 + 3, c.get('style', 'gauss'), self.pd)
        self._pass(x, seed, c.get('N', 2), train=False)
        self.rec.enabled = True
        self.rec.pop()
        self.model.train()
        self.twin.train()
        for m in (self.model, self.twin):
            m.zero_grad(set_to_none=True)
        after = self.factors()
        for n in self.names:
            for i in (0, 1):
                a, b = before[n][i], after[n][i]
                if not ((a is None and b is None) or (a is not None and b is not None and torch.equal(a, b))):
                    return ('eval-changed-state', f'eval-mode pass changed a factor of layer {n}')
        if self.pre.steps != steps or dict(self.pre.memory_usage()) != mem:
            return ('eval-changed-state', f'eval-mode pass changed steps or memory usage ({mem} -> {dict(self.pre.memory_usage())})')
        return None

    def inspect(self):
        """Read-only looking operations a user may perform between two steps; none of them may change later behaviour."""
        pre = self.pre
        try:
            repr(pre)
            str(pre)
            for k in HP_KEYS:
                getattr(pre, k)
            _ = pre.steps
            pre.state_dict()
            pre.state_dict(include_factors=False)
            dict(pre.memory_usage())
            for _name, layer in pre._layers.values():
                repr(layer)
                layer.memory_usage()
        except Exception as e:  # noqa: BLE001
            return ('exception', f'inspecting the preconditioner raised {type(e).__name__}: {e}')
        return None

    def reset_batch(self):
        self.pre.reset_batch()
        self.ref.reset_batch()
        return None

    def sched_step(self):
        if self.sched is None:
            return None
        self.sched.step()
        for k, v in self.sched_json.items():
            f = hp_callable(v)(self.ref.steps)
            cur = self.ref.hp[k]
            self.ref.hp[k] = int(cur * f) if k in INT_HP else cur * f
        for k in self.sched_json:
            if getattr(self.pre, k) != self.ref.hp[k]:
                return ('scheduler', f'after scheduler.step() {k} = {getattr(self.pre, k)!r}, expected {self.ref.hp[k]!r}')
        return None

    def snapshot(self):
        """Keep a state dict alive in memory (not pickled, not copied) together with the weights and the reference's state."""
        if self.ref.steps == 0 or any(L.A is None or L.G is None for L in self.ref.layers.values()):
            return None      # a state without factors does not reset a live preconditioner's factors when loaded (not a roll-back)
        self.snap = {'sd': self.pre.state_dict(), 'ref': self.ref.save_state(), 'at': len(self.events),
                     'params': [p.detach().clone() for p in self.model.parameters()],
                     'buffers': [b.detach().clone() for b in self.model.buffers()]}
        return None

    def rollback(self):
        """Load the state dict kept by snapshot() into the SAME live preconditioner and put the weights back
        (keep-best-checkpoint / roll-back pattern).  Second-order data is recomputed from the restored factors."""
        if self.snap is None:
            return None
        try:
            with warnings.catch_warnings():
                warnings.simplefilter('ignore')
                self.pre.load_state_dict(self.snap['sd'], compute_inverses=True)
        except Exception as e:  # noqa: BLE001
            return ('load-exception', f'load_state_dict of a state dict kept in memory raised {type(e).__name__}: {e}')
        with torch.no_grad():
            for m in (self.model, self.twin):
                for p, q in zip(m.parameters(), self.snap['params']):
                    p.copy_(q)
                for b, q in zip(m.buffers(), self.snap['buffers']):
                    b.copy_(q)
        self.ref.load_state(self.snap['ref'])
        self.ref.refresh_snapshots()
        if self.pre.steps != self.ref.steps:
            return ('roundtrip-steps', f'steps after rolling back = {self.pre.steps}, snapshot taken at {self.ref.steps}')
        for k, v in self.ref.hp.items():
            if not callable(v) and getattr(self.pre, k) != v:
                return ('roundtrip-hyperparameter', f'{k} after rolling back = {getattr(self.pre, k)!r}, value when the state was taken {v!r}')
        return None

    def checkpoint_roundtrip(self, compute_inverses=True, include_factors=True, perturb=False):
        """state -> pickle -> fresh model copy + fresh preconditioner -> load.  Returns None or (key, msg)."""
        if not compute_inverses and (not self.ref.is_refresh_step() or (self.sched_json and 'inv_update_steps' in self.sched_json)):
            # documented requirement: without inverses the first step after loading must be an inverse-update step
            # (a scheduler over inv_update_steps could still change that before the step, so it is not risked then)
            compute_inverses = True
        if not include_factors and not (self.ref.is_refresh_step() and self.ref.is_factor_step() and False):
            include_factors = True      # resuming without factors is only meaningful for a fresh start; not exercised here
        try:
            sd = self.pre.state_dict(include_factors=include_factors)
            blob = pickle.dumps(sd)
        except Exception as e:  # noqa: BLE001
            return ('exception', f'state_dict() raised {type(e).__name__}: {e}')
        saved = pickle.loads(blob)
        new_model = kmodel.build_model(self.case['spec'], self.pd)
        kmodel.copy_params(self.model, new_model)
        kw = dict(self.kw)
        if perturb:
            # the fresh preconditioner is constructed with OTHER constants: the saved ones (also falsy ones such as lr = 0.0 or
            # kl_clip = None) must replace them
            other = {'factor_update_steps': lambda v: v + 1, 'inv_update_steps': lambda v: v + 2, 'damping': lambda v: v * 3 + 0.5,
                     'factor_decay': lambda v: 0.77 if v != 0.77 else 0.6, 'kl_clip': lambda v: 0.123 if v is None else v * 7, 'lr': lambda v: v * 0.5 + 0.3}
            for key, f in other.items():
                if key in kw and not callable(kw[key]):
                    kw[key] = f(kw[key])
        try:
            with warnings.catch_warnings():
                warnings.simplefilter('ignore')
                new_pre = self.KFACPreconditioner(new_model, **kw)
                new_pre.load_state_dict(pickle.loads(blob), compute_inverses=compute_inverses)
        except Exception as e:  # noqa: BLE001
            return ('load-exception', f'load_state_dict of a valid state raised {type(e).__name__}: {e} (steps={saved["steps"]})')
        self.model, self.pre = new_model, new_pre
        self.mods = dict(self.model.named_modules())
        if self.sched_json:
            self._mk_sched()
        # (a) round trip
        if new_pre.steps != saved['steps'] or new_pre.steps != self.ref.steps:
            return ('roundtrip-steps', f'steps after load = {new_pre.steps}, saved {saved["steps"]}, reference {self.ref.steps}')
        for k in HP_KEYS:
            if k in saved:
                if getattr(new_pre, k) != saved[k] or type(getattr(new_pre, k)) is not type(saved[k]):
                    return ('roundtrip-hyperparameter', f'{k} after load = {getattr(new_pre, k)!r}, saved {saved[k]!r}')
                refv = self.ref.hp[k]
                if not callable(refv) and refv != saved[k]:
                    return ('roundtrip-hyperparameter', f'saved {k} = {saved[k]!r}, reference value {refv!r}')
        now = new_pre.state_dict()['layers']
        if include_factors:
            if set(now) != set(saved['layers']):
                return ('roundtrip-layers', f'layers after load {sorted(now)} != saved {sorted(saved["layers"])}')
            for n in saved['layers']:
                for f in ('A', 'G'):
                    a, b = saved['layers'][n][f], now[n][f]
                    if (a is None) != (b is None) or (a is not None and (a.dtype != b.dtype or not torch.equal(a, b))):
                        return ('roundtrip-factor', f'factor {f} of layer {n} not restored exactly')
        if compute_inverses:
            self.ref.refresh_snapshots()
        return None
