"""Drive the real KFACPreconditioner on W simulated ranks (and in a world of one) from a JSON case.

A *program* is a list of operations executed by every rank thread without any
artificial barrier in between:

  {'op': 'train', 'seed': s}                      accumulation_steps train-mode passes, gradient averaging (what DDP does),
                                                  preconditioner.step(), plain SGD update
  {'op': 'eval', 'seed': s}                       eval-mode forward/backward (must not touch K-FAC state)
  {'op': 'state_dict', 'ranks': [..]|None}        state_dict() on a subset of ranks (no collective implied)
  {'op': 'memory_usage', 'ranks': [..]|None}
  {'op': 'reset_batch', 'ranks': None}
  {'op': 'load', 'compute_inverses': b, 'include_factors': b}
                                                  checkpoint -> pickle -> fresh model copy + fresh preconditioner -> load (all ranks)
  {'op': 'sched_step'}                            LambdaParamScheduler.step() (only when case['scheduler'] is given)
"""

from __future__ import annotations

import copy
import pickle
import warnings

import torch
import torch.distributed as dist

from vkit import kmodel, simdist
from vkit.gens import hp_callable

HP_KEYS = ('factor_update_steps', 'inv_update_steps', 'damping', 'factor_decay', 'kl_clip', 'lr')


def fraction_of(case):
    from kfac.enums import DistributedStrategy
    f = case.get('fraction', 'COMM')
    if f == 'COMM':
        return DistributedStrategy.COMM_OPT
    if f == 'MEM':
        return DistributedStrategy.MEM_OPT
    if f == 'HYBRID':
        return DistributedStrategy.HYBRID_OPT
    return case['k'] / case['W'] if f == 'float' else float(f)


def pre_kwargs(case, world_one=False):
    kw = dict(
        compute_method=case.get('method', 'eigen'),
        compute_eigenvalue_outer_product=case.get('prediv', False),
        colocate_factors=case.get('colocate', True),
        assignment_strategy=case.get('heuristic', 'compute'),
        allreduce_bucket_cap_mb=case.get('cap', 25.0),
        symmetry_aware=case.get('symmetry', False),
        accumulation_steps=case.get('accum', 1),
        update_factors_in_hook=case.get('in_hook', True),
        factor_dtype=kmodel.dt(case.get('factor_dtype')),
        inv_dtype=kmodel.dt(case.get('inv_dtype', 'float32')),
        skip_layers=case.get('skip_layers'),
    )
    if not world_one:
        kw['grad_worker_fraction'] = fraction_of(case)
    hp = case.get('hp', {})
    for k in HP_KEYS:
        if k in hp:
            kw[k] = hp_callable(hp[k])
            # constants handed over as 0-d tensors / numpy scalars (values read from a config tensor or an array) instead of Python floats
            if case.get('hp_form') and k in ('kl_clip', 'lr') and type(kw[k]) is float:
                if case['hp_form'] == 'tensor0d':
                    import torch
                    kw[k] = torch.tensor(kw[k], dtype=torch.float64)
                elif case['hp_form'] == 'numpy':
                    import numpy
                    kw[k] = numpy.float64(kw[k])
    if case.get('loss_scale') is not None:
        kw['grad_scaler'] = (lambda s=case['loss_scale']: s)
    return kw


def flat_grads(model):
    return {n: (None if p.grad is None else p.grad.detach().clone()) for n, p in model.named_parameters()}


def held_second_order(layer):
    """Second-order tensors held by a KFAC layer object: walk its attributes (futures resolved)."""
    out = {}
    for attr in ('a_inv', 'g_inv', 'qa', 'qg', 'da', 'dg', 'dgda'):
        if hasattr(layer, attr):
            v = getattr(layer, attr)
            if isinstance(v, torch.Tensor):
                out[attr] = v
    return out


def layer_bytes(layer):
    tot = {}
    for key, attrs in (('a_factors', ['a_factor']), ('g_factors', ['g_factor']), ('a_batch', ['_a_batch']), ('g_batch', ['_g_batch'])):
        tot[key] = 0
        for a in attrs:
            v = getattr(layer, a, None)
            if isinstance(v, torch.Tensor):
                tot[key] += v.nelement() * v.element_size()
    so = held_second_order(layer)
    tot['a_inverses'] = sum(v.nelement() * v.element_size() for k, v in so.items() if k in ('a_inv', 'qa', 'da'))
    tot['g_inverses'] = sum(v.nelement() * v.element_size() for k, v in so.items() if k in ('g_inv', 'qg', 'dg', 'dgda'))
    return tot


class RankRunner:
    """Executes a program on one rank (inside a simulation) or in a world of one."""

    def __init__(self, case, rank, world, observe=()):
        from kfac.preconditioner import KFACPreconditioner
        self.case, self.rank, self.world = case, rank, world
        self.KFACPreconditioner = KFACPreconditioner
        self.pd = kmodel.dt(case.get('param_dtype', 'float32'))
        self.model = kmodel.build_model(case['spec'], self.pd)
        self.kw = pre_kwargs(case, world_one=(world == 1 and not dist.is_initialized()))
        with warnings.catch_warnings():
            warnings.simplefilter('ignore')
            self.pre = KFACPreconditioner(self.model, **self.kw)
        self.observe = set(observe)
        self.records = []
        self.twin = None
        self.live = [v for v in self.kw.values() if hasattr(v, 'set_iter')]
        self.iter = 0
        if 'records' in self.observe:
            # harness-owned twin without K-FAC: its hooks record layer inputs / output gradients
            self.twin = kmodel.build_model(case['spec'], self.pd)
            self.twin_names = kmodel.kfac_layer_names(self.twin)
            self.recorder = kmodel.Recorder(self.twin, self.twin_names)
        self.sched = None
        if case.get('scheduler'):
            self._mk_sched()

    def _mk_sched(self):
        from kfac.scheduler import LambdaParamScheduler
        lam = {k + '_lambda': hp_callable(v) for k, v in self.case['scheduler'].items()}
        self.sched = LambdaParamScheduler(self.pre, **lam)

    # ---------------------------------------------------------------
    def _batch(self, seed, micro, rank):
        c = self.case
        x = kmodel.make_input(c['spec'], c['N'], seed * 1009 + micro * 101 + rank * 7 + 1, c.get('style', 'gauss'), self.pd)
        return x, seed * 2003 + micro * 211 + rank * 13 + 5

    def _forward_backward(self, seed, micro, ranks):
        """ranks: the ranks whose batches are fed (one in a distributed run; all, concatenated, in the world-of-one reference)."""
        c = self.case
        xs, lseeds = zip(*[self._batch(seed, micro, r) for r in ranks])
        x = torch.cat(xs, 0)
        y = self.model(x)
        scale = c.get('loss_scale') or 1.0
        loss = sum(kmodel.loss_of(yc, ls, c['N'], c.get('loss_style', 'mix')) for yc, ls in zip(y.split(c['N'], 0), lseeds))
        (loss * scale).backward()
        if self.twin is not None:
            self.twin.train(self.model.training)
            self.recorder.enabled = self.model.training
            y2 = self.twin(x)
            loss2 = sum(kmodel.loss_of(yc, ls, c['N'], c.get('loss_style', 'mix')) for yc, ls in zip(y2.split(c['N'], 0), lseeds))
            (loss2 * scale).backward()
            self.twin.zero_grad(set_to_none=True)
        return y.detach()

    def run(self, program):
        c = self.case
        W = self.world
        dist_on = dist.is_initialized()
        feed = [self.rank] if dist_on else list(range(c['W']))
        nfeed = len(feed) if not dist_on else 1
        if 'assignment' in self.observe:
            a = self.pre._assignment
            self.records.append({'i': -1, 'op': 'init', 'assignment': {
                n: {'inv': {f: a.inv_worker(n, f) for f in a.get_factors(n)}, 'is_grad_worker': a.is_grad_worker(n),
                    'src': a.src_grad_worker(n)} for n in a.get_layers()},
                'shapes': {n: {'A': tuple(l.module.a_factor_shape), 'G': tuple(l.module.g_factor_shape),
                               'grad': (l.module.g_factor_shape[0], l.module.a_factor_shape[0])}
                           for n, l in self.pre._layers.values()}})
        for i, op in enumerate(program):
            simdist.set_phase(f'op{i}:{op["op"]}')
            kind = op['op']
            rec = {'i': i, 'op': kind}
            if kind == 'train':
                for v in self.live:
                    v.set_iter(self.iter)      # "the optimizer's value" for this iteration, changed between iterations
                self.iter += 1
                self.model.train()
                if op.get('eval_modules'):
                    # fine-tuning style: some registered layers are in eval mode during this iteration (same on every rank)
                    reg = sorted(kmodel.kfac_layer_names(self.model))
                    mods_ = dict(self.model.named_modules())
                    for idx in op['eval_modules']:
                        if reg:
                            mods_[reg[idx % len(reg)]].eval()
                self.model.zero_grad(set_to_none=c.get('zero_to_none', True))
                for micro in range(c.get('accum', 1)):
                    simdist.set_phase(f'op{i}:train/fwdbwd')
                    self._forward_backward(op['seed'], micro, feed)
                    if self.twin is not None:
                        r = self.recorder.pop()
                        rec.setdefault('recs', []).append({n: (r[n][0][0], r[n][1][0]) for n in self.twin_names})
                simdist.set_phase(f'op{i}:train/ddp')
                scale = c.get('loss_scale') or 1.0
                for p in self.model.parameters():
                    if p.grad is None:
                        continue
                    if scale != 1.0:
                        p.grad /= scale
                    if dist_on and W > 1:
                        dist.all_reduce(p.grad)
                        p.grad /= W
                    elif not dist_on and nfeed > 1:
                        p.grad /= nfeed
                    if c.get('accum', 1) > 1:
                        p.grad /= c['accum']
                if 'grads_before' in self.observe:
                    rec['before'] = flat_grads(self.model)
                if 'params' in self.observe:
                    rec['params_before'] = {n: p.detach().clone() for n, p in self.model.named_parameters()}
                    rec['buffers_before'] = {n: b.detach().clone() for n, b in self.model.named_buffers()}
                simdist.set_phase(f'op{i}:train/step')
                self.pre.step()
                simdist.set_phase(f'op{i}:train/after')
                if c.get('inspect'):
                    # read-only looking operations right after the step, i.e. BEFORE the training loop changes any live state the
                    # hyper-parameter callables read (same on every rank; none implies a collective)
                    repr(self.pre)
                    for k_ in HP_KEYS:
                        getattr(self.pre, k_)
                    _ = self.pre.steps
                    self.pre.state_dict()
                    dict(self.pre.memory_usage())
                rec['after'] = flat_grads(self.model)
                rec['steps'] = self.pre.steps
                if 'params' in self.observe:
                    rec['params_after'] = {n: p.detach().clone() for n, p in self.model.named_parameters()}
                    rec['buffers_after'] = {n: b.detach().clone() for n, b in self.model.named_buffers()}
                if 'held' in self.observe:
                    rec['held'] = {n: {k: (tuple(v.shape), str(v.dtype), v.nelement() * v.element_size())
                                       for k, v in held_second_order(l).items()} for n, l in self.pre._layers.values()}
                    rec['bytes'] = {n: layer_bytes(l) for n, l in self.pre._layers.values()}
                if 'factors' in self.observe and (op.get('factors_on') is None or self.rank in op['factors_on']):
                    sd = self.pre.state_dict()
                    rec['factors'] = {n: {k: (None if v is None else v.detach().clone()) for k, v in f.items()}
                                      for n, f in sd['layers'].items()}
                if c.get('update') == 'noise':
                    # gradient-independent drift (identical on every rank and in every run of a metamorphic pair)
                    gen = torch.Generator().manual_seed(op['seed'] * 7 + 12345)
                    with torch.no_grad():
                        for p in self.model.parameters():
                            p.add_(0.05 * torch.randn(p.shape, generator=gen, dtype=torch.float64).to(p.dtype))
                else:
                  with torch.no_grad():
                    for p in self.model.parameters():
                        if p.grad is not None and torch.isfinite(p.grad).all():
                            # bounded update (identical on every rank because the gradients are)
                            p.add_(p.grad / max(1.0, p.grad.abs().max().item()), alpha=-c.get('sgd_lr', 0.05))
                if self.twin is not None:
                    kmodel.copy_params(self.model, self.twin)
            elif kind == 'eval':
                self.model.eval()
                self.model.zero_grad(set_to_none=True)
                self._forward_backward(op['seed'], 0, feed)
                self.model.zero_grad(set_to_none=True)
                self.model.train()
                if self.twin is not None:
                    self.recorder.enabled = True
                    self.recorder.pop()
            elif kind == 'state_dict':
                if op.get('ranks') is None or self.rank in op['ranks']:
                    sd = self.pre.state_dict(include_factors=op.get('include_factors', True))
                    rec['state'] = sd if 'state' in self.observe else None
            elif kind == 'memory_usage':
                if op.get('ranks') is None or self.rank in op['ranks']:
                    rec['memory'] = dict(self.pre.memory_usage())
                    if 'held' in self.observe:
                        rec['bytes'] = {n: layer_bytes(l) for n, l in self.pre._layers.values()}
            elif kind == 'reset_batch':
                if op.get('ranks') is None or self.rank in op['ranks']:
                    self.pre.reset_batch()
            elif kind == 'cast':
                # the user casts the model in the middle of a run (model.double() / model.float()); later batches come in the new dtype
                self.pd = kmodel.dt(op['dtype'])
                self.model.to(self.pd)
                if self.twin is not None:
                    self.twin.to(self.pd)
            elif kind == 'sched_step':
                if self.sched is not None:
                    self.sched.step()
            elif kind == 'snapshot':
                # a state dict kept alive in memory (not pickled) must not change when training continues; several may be kept (slot)
                live = self.pre.state_dict()
                self._snaps = getattr(self, '_snaps', {})
                self._snaps[op.get('slot', 0)] = {'live': live, 'copy': pickle.loads(pickle.dumps(live)),
                                                  'params': [p.detach().clone() for p in self.model.parameters()],
                                                  'buffers': [b.detach().clone() for b in self.model.buffers()]}
            elif kind == 'rollback':
                # load an older checkpoint into the SAME (live) preconditioner and put the weights back
                snap = self._snaps[op.get('slot', 0)]
                with warnings.catch_warnings():
                    warnings.simplefilter('ignore')
                    # 'live': the very dict returned by state_dict() (it may alias live tensors); otherwise a deep copy taken at that time
                    state = snap['live'] if op.get('live') else pickle.loads(pickle.dumps(snap['copy']))
                    self.pre.load_state_dict(state, compute_inverses=op.get('compute_inverses', True))
                with torch.no_grad():
                    for p, q in zip(self.model.parameters(), snap['params']):
                        p.copy_(q)
                    for b, q in zip(self.model.buffers(), snap['buffers']):
                        b.copy_(q)
                if self.twin is not None:
                    kmodel.copy_params(self.model, self.twin)
            elif kind == 'check_snapshot':
                bad = None
                snap = self._snaps[op.get('slot', 0)]
                live, copy_ = snap['live'], snap['copy']
                for key in copy_:
                    if key != 'layers' and live.get(key) != copy_[key]:
                        bad = f'{key} changed from {copy_[key]!r} to {live.get(key)!r}'
                for n, fs in copy_.get('layers', {}).items():
                    for f in ('A', 'G'):
                        a, b = fs[f], live['layers'][n][f]
                        if (a is None) != (b is None) or (a is not None and not torch.equal(a, b)):
                            bad = f'factor {f} of layer {n} changed after the state was taken'
                rec['snapshot_mutated'] = bad
            elif kind == 'reload_live':
                # same object: second-order data recomputed from its own factors at the current damping
                # (optionally only on a subset of ranks: valid where the load implies no collective, i.e. MEM-OPT or a world of one)
                if op.get('ranks') is None or self.rank in op['ranks']:
                    with warnings.catch_warnings():
                        warnings.simplefilter('ignore')
                        self.pre.load_state_dict(pickle.loads(pickle.dumps(self.pre.state_dict())), compute_inverses=True)
            elif kind == 'load':
                sd = self.pre.state_dict(include_factors=op.get('include_factors', True))
                blob = pickle.dumps(sd)
                rec['saved'] = pickle.loads(blob) if 'state' in self.observe else None
                # fresh_dtype: the resuming script builds the model in its original dtype, constructs the preconditioner, loads the K-FAC
                # state and only then casts the model (and loads the weights) - the order in which the original run did these things
                new_model = kmodel.build_model(c['spec'], kmodel.dt(op['fresh_dtype']) if op.get('fresh_dtype') else self.pd)
                if not op.get('fresh_dtype'):
                    kmodel.copy_params(self.model, new_model)
                kw = dict(self.kw)
                if op.get('perturb_fresh'):
                    # the fresh preconditioner is built with *other* constants: the state must restore the saved ones
                    other = {'factor_update_steps': lambda v: v + 1, 'inv_update_steps': lambda v: v + 2, 'damping': lambda v: v * 3 + 0.5,
                             'factor_decay': lambda v: 0.77 if v != 0.77 else 0.6, 'kl_clip': lambda v: 0.123 if v is None else v * 7, 'lr': lambda v: v * 0.5 + 0.3}
                    for key, f in other.items():
                        if key in kw and not callable(kw[key]):
                            kw[key] = f(kw[key])
                state = pickle.loads(blob)
                if op.get('reverse_layers') and 'layers' in state:
                    state['layers'] = dict(reversed(list(state['layers'].items())))
                with warnings.catch_warnings():
                    warnings.simplefilter('ignore')
                    new_pre = self.KFACPreconditioner(new_model, **kw)
                    new_pre.load_state_dict(state, compute_inverses=op.get('compute_inverses', True))
                if op.get('fresh_dtype'):
                    new_model.to(self.pd)
                    kmodel.copy_params(self.model, new_model)
                self.model, self.pre = new_model, new_pre
                if self.sched is not None:
                    self._mk_sched()
                if 'state' in self.observe:
                    rec['loaded'] = pickle.loads(pickle.dumps(self.pre.state_dict(include_factors=True)))
            else:
                raise ValueError(kind)
            self.records.append(rec)
        return self.records


def run_sim(case, program, schedule=(), flip=False, observe=(), timeout=120.0):
    W = case['W']

    def prog(rank):
        return RankRunner(case, rank, W, observe).run(program)
    return simdist.Sim(W, schedule, flip_timing=flip).run(prog, timeout=timeout)


def run_single(case, program, observe=()):
    """World of one (torch.distributed not initialised) fed the union of the per-rank batches."""
    assert not dist.is_initialized()
    return RankRunner(case, 0, 1, observe).run(program)
