"""Model specs (JSON) -> torch modules, deterministic data, twin recorder.

Nothing here uses kfac code.  All randomness is a function of integer seeds
through explicit torch.Generator objects (the global RNG is never consulted).
"""

from __future__ import annotations

import math

import torch
from torch import nn

DTYPES = {'float32': torch.float32, 'float64': torch.float64, 'bfloat16': torch.bfloat16, 'float16': torch.float16,
          None: None, 'none': None}


def dt(name):
    return DTYPES[name]


def conv_out(h, k, s, p):
    return (h + 2 * p - k) // s + 1


class Cast(nn.Module):
    """x.to(dtype): lets one part of a model run in another floating-point type (mixed-dtype models)."""

    def __init__(self, dtype):
        super().__init__()
        self.dtype = dtype

    def forward(self, x):
        return x.to(self.dtype)


class Scale(nn.Module):
    """Parameter-free elementwise scaling (keeps activations O(1))."""

    def __init__(self, f):
        super().__init__()
        self.f = f

    def forward(self, x):
        return x * self.f


class Affine(nn.Module):
    """Unsupported *trainable* leaf (has parameters, is not Linear/Conv2d)."""

    def __init__(self, n, dim=-1):
        super().__init__()
        self.gain = nn.Parameter(torch.ones(n))
        self.shift = nn.Parameter(torch.zeros(n))
        self.dim = dim

    def forward(self, x):
        shape = [1] * x.dim()
        idx = self.dim % x.dim()
        shape[idx] = -1
        return x * self.gain.view(shape) + self.shift.view(shape)


class Residual(nn.Module):
    """x + fn(x): the gradient w.r.t. fn's output is shared with the skip branch."""

    def __init__(self, fn):
        super().__init__()
        self.fn = fn

    def forward(self, x):
        return x + self.fn(x)


class MyLinear(nn.Linear):
    pass


class MyConv2d(nn.Conv2d):
    pass


class GainLinear(nn.Linear):
    """A Linear subclass (leaf, hence eligible) with one more learnable parameter that K-FAC does not know about."""

    def __init__(self, *a, **kw):
        super().__init__(*a, **kw)
        self.gain = nn.Parameter(torch.ones(self.out_features))

    def forward(self, x):
        return super().forward(x) * self.gain


ACTS = {'relu': nn.ReLU, 'tanh': nn.Tanh, 'none': None, 'sigmoid': nn.Sigmoid}


class AliasBox(nn.Module):
    """Holds a reference to a module that is used elsewhere in the model; identity in the forward pass."""

    def __init__(self, m):
        super().__init__()
        self.m = m

    def forward(self, x):
        return x


def build_model(spec, dtype=torch.float32):
    """spec['layers'] is a list of layer dicts; returns nn.Sequential with modules named by index.

    Layer dict types: linear{in,out,bias,sub?}, conv{cin,cout,k,s,p,bias,sub?}, pool{oh,ow}, flatten,
    act{name}, ln{n}, bn{n}, affine{n}.  Optional 'frozen': 'all'|'weight'|'bias'.
    """
    mods = []
    for L in spec['layers']:
        t = L['t']
        if t == 'linear':
            m = (GainLinear if L.get('sub') == 'gain' else MyLinear if L.get('sub') else nn.Linear)(L['in'], L['out'], bias=L['bias'])
        elif t == 'conv':
            m = (MyConv2d if L.get('sub') else nn.Conv2d)(L['cin'], L['cout'], tuple(L['k']), stride=tuple(L['s']),
                                                          padding=tuple(L['p']), bias=L['bias'])
        elif t == 'res_linear':
            m = Residual(nn.Linear(L['n'], L['n'], bias=L['bias']))
        elif t == 'res_conv':
            m = Residual(nn.Conv2d(L['n'], L['n'], 3, padding=1, bias=L['bias']))
        elif t == 'pool':
            m = nn.AdaptiveAvgPool2d((L['oh'], L['ow']))
        elif t == 'flatten':
            m = nn.Flatten()
        elif t == 'act':
            m = ACTS[L['name']]()
        elif t == 'ln':
            m = nn.LayerNorm(L['n'])
        elif t == 'bn':
            m = nn.BatchNorm2d(L['n'])
        elif t == 'affine':
            m = Affine(L['n'], L.get('dim', -1))
        elif t == 'scale':
            m = Scale(L['f'])
        elif t == 'cast':
            m = Cast(DTYPES[L['dtype']])
        else:
            raise ValueError(t)
        mods.append(m)
    al = spec.get('alias')
    if al is not None and 0 <= al['of'] < len(mods) and spec['layers'][al['of']]['t'] in ('linear', 'conv'):
        # the very same module object is ALSO reachable through an inert holder (identity forward, never calls it): 'k' and 'N.m', or,
        # with first=True, '0.m' and 'k+1' - named_modules() reports a shared module once, under the first of its names
        box = AliasBox(mods[al['of']])
        seq = [box] + mods if al.get('first') else mods + [box]
    else:
        al, seq = None, mods
    nest = spec.get('nest_from')
    if al is not None:
        model = nn.Sequential(*seq)
    elif nest is not None and 0 < nest < len(mods):
        # the tail of the chain inside an inner Sequential: module names '0', ..., then 'i.0', 'i.1', ... ('0' is a dotted suffix of 'i.0')
        model = nn.Sequential(*mods[:nest], nn.Sequential(*mods[nest:]))
    else:
        model = nn.Sequential(*mods)
    gen = torch.Generator().manual_seed(int(spec.get('seed', 0)) * 7919 + 13)
    with torch.no_grad():
        for name, p in model.named_parameters():
            fan = p.shape[1:].numel() if p.dim() > 1 else 1
            if name.endswith('gain'):
                p.copy_(1 + 0.3 * torch.randn(p.shape, generator=gen))
            elif p.dim() > 1:
                p.copy_(torch.randn(p.shape, generator=gen) / math.sqrt(max(fan, 1)))
            elif 'weight' in name:      # norm weights
                p.copy_(1 + 0.3 * torch.randn(p.shape, generator=gen))
            else:
                p.copy_(0.3 * torch.randn(p.shape, generator=gen))
    model = model.to(dtype)
    for i, L in enumerate(spec['layers']):
        if L.get('dtype') and L['t'] != 'cast':      # this layer alone lives in another dtype (a 'cast' layer precedes it)
            mods[i].to(DTYPES[L['dtype']])
    if spec.get('weight_t'):
        # Linear weights stored transposed (column-major: same values, dense, non-contiguous), as after importing a checkpoint with
        # `weight.data = kernel.t()`; autograd then produces weight gradients with the same strides
        for m in model.modules():
            if isinstance(m, nn.Linear) and m.weight.shape[0] > 1 and m.weight.shape[1] > 1:
                m.weight.data = m.weight.data.t().contiguous().t()
    for i, L in enumerate(spec['layers']):
        if L.get('tie_to') is not None:            # weight tying: this layer uses the very Parameter of an earlier layer of the same shape
            mods[i].weight = mods[L['tie_to']].weight
    for i, L in enumerate(spec['layers']):
        fr = L.get('frozen')
        if fr == 'all':
            for p in mods[i].parameters():
                p.requires_grad_(False)
        elif fr in ('weight', 'bias'):
            p = getattr(mods[i], fr, None)
            if isinstance(p, nn.Parameter):
                p.requires_grad_(False)
    return model


def input_shape(spec, n):
    inp = spec['input']
    if 'H' in inp:
        return (n, inp['C'], inp['H'], inp['W'])
    return (n,) + tuple(inp.get('lead', [])) + (inp['in'],)


STYLES = ['gauss', 'gauss', 'ints', 'lowrank', 'deadcol', 'small', 'big', 'permuted']


def make_input(spec, n, seed, style='gauss', dtype=torch.float32):
    gen = torch.Generator().manual_seed(int(seed) * 104729 + 7)
    shape = input_shape(spec, n)
    x = torch.randn(shape, generator=gen, dtype=torch.float64)
    if style == 'ints':
        x = torch.round(x * 2)
    elif style == 'lowrank' and n > 1:
        x = x[:1].expand(shape).clone() * torch.arange(1, n + 1, dtype=torch.float64).view((n,) + (1,) * (len(shape) - 1)) / n
    elif style == 'deadcol':
        x.select(1 if len(shape) == 4 else len(shape) - 1, 0).zero_()
    elif style == 'small':
        x = x * 0.1
    elif style == 'big':
        x = x * 3.0
    x = x.to(dtype)
    if style == 'permuted':
        # same values as 'gauss' in a dense non-contiguous layout (channels_last images, transposed storage otherwise)
        x = x.contiguous(memory_format=torch.channels_last) if x.dim() == 4 else x.transpose(-1, -2).contiguous().transpose(-1, -2)
    return x


def loss_of(y, seed, n, style='mix'):
    """Scalar loss normalised by the (per-rank) batch size n."""
    gen = torch.Generator().manual_seed(int(seed) * 15485863 + 11)
    r = torch.randn(y.shape, generator=gen, dtype=torch.float64).to(y.dtype)
    if style == 'zero':
        return (y * 0.0).sum()
    return ((y * r).sum() + 0.5 * (y * y).sum()) / n


def kfac_layer_names(model):
    """Names of leaf Linear/Conv2d modules with all parameters trainable (no skip patterns)."""
    out = []
    for name, m in model.named_modules():
        if len(list(m.children())) == 0 and isinstance(m, (nn.Linear, nn.Conv2d)) and all(p.requires_grad for p in m.parameters()):
            out.append(name)
    return out


class Recorder:
    """Harness-owned hooks recording each supported layer's input and output gradient (kfac's hooks are not trusted)."""

    def __init__(self, model, names):
        self.model = model
        self.names = list(names)
        self.inputs: dict[str, list] = {n: [] for n in names}
        self.gouts: dict[str, list] = {n: [] for n in names}
        self.enabled = True
        mods = dict(model.named_modules())
        for n in names:
            mods[n].register_forward_hook(self._fwd(n))
            # inert hooks of the two kinds K-FAC registers: torch routes the output of a module with a full backward hook
            # through an identity autograd function that may re-stride size-1 dimensions (a following convolution can then
            # pick another kernel, 1 ulp apart); that plumbing is torch's, so the twin shares it
            mods[n].register_forward_pre_hook(lambda m, i: None)
            mods[n].register_full_backward_hook(lambda m, gi, go: None)

    def _fwd(self, name):
        def hook(module, inp, out):
            if not self.enabled:
                return
            self.inputs[name].append(inp[0].detach().clone())
            if out.requires_grad:
                out.register_hook(lambda g, name=name: self.gouts[name].append(g.detach().clone()))
        return hook

    def pop(self):
        rec = {n: (self.inputs[n], self.gouts[n]) for n in self.names}
        self.inputs = {n: [] for n in self.names}
        self.gouts = {n: [] for n in self.names}
        return rec


def copy_params(src, dst):
    with torch.no_grad():
        for (n1, p1), (n2, p2) in zip(src.named_parameters(), dst.named_parameters()):
            assert n1 == n2
            p2.copy_(p1)
        for (n1, b1), (n2, b2) in zip(src.named_buffers(), dst.named_buffers()):
            b2.copy_(b1)


def grads_of(model):
    return {n: (None if p.grad is None else p.grad.detach().clone()) for n, p in model.named_parameters()}


def combined_grad(module, grads, prefix):
    """[W.grad.reshape(out,-1) | b.grad] assembled independently of kfac's helper. float64."""
    w = grads[prefix + ('.' if prefix else '') + 'weight'].to(torch.float64)
    d = w.reshape(w.shape[0], -1)
    if getattr(module, 'bias', None) is not None:
        b = grads[prefix + ('.' if prefix else '') + 'bias'].to(torch.float64)
        d = torch.cat([d, b.reshape(-1, 1)], 1)
    return d
