"""Coverage-guided campaign for one property: atheris (libFuzzer) drives the property's Hypothesis strategy through
``test.hypothesis.fuzz_one_input`` with the ``kfac`` package instrumented for coverage feedback.

usage: python -m vkit.fuzz_atheris <ID> <tier> <outdir> [libFuzzer args, e.g. -runs=20000 -max_total_time=60 -seed=1]

Writes <outdir>/stats.json periodically (libFuzzer does not run atexit handlers) and <outdir>/violation.json when an
unlisted violation is found (then raises so that libFuzzer stops).
"""

from __future__ import annotations

import json
import os
import sys
import time


def main() -> None:
    pid, tier, outdir = sys.argv[1], sys.argv[2], sys.argv[3]
    fargs = [sys.argv[0]] + sys.argv[4:]
    here = os.path.dirname(os.path.dirname(os.path.abspath(__file__)))
    sys.path.insert(0, os.path.join(here, '.deps'))
    from vkit import runner
    runner.setup_paths()
    runner._limit_threads()
    import warnings
    warnings.simplefilter('ignore')
    import atheris
    with atheris.instrument_imports(include=['kfac']):
        import kfac  # noqa: F401
        import kfac.assignment  # noqa: F401
        import kfac.scheduler  # noqa: F401
        import kfac.tracing  # noqa: F401
        import kfac.hyperparams  # noqa: F401
        import kfac.layers.register  # noqa: F401
        try:
            from vkit import ds_doubles
            ds_doubles.install()
            import kfac.gpt_neox.assignment  # noqa: F401
            import kfac.gpt_neox.preconditioner  # noqa: F401
        except Exception:  # noqa: BLE001
            pass
    from hypothesis import HealthCheck, given, settings
    prop = runner.load_prop(pid)
    open_keys, _ = runner.load_known(pid)
    os.makedirs(outdir, exist_ok=True)
    st = {'runs': 0, 'nontrivial': set(), 'known': {}, 'labels': {}, 't0': time.time()}

    def flush():
        with open(os.path.join(outdir, 'stats.json'), 'w') as f:
            json.dump({'runs': st['runs'], 'nontrivial_digests': sorted(st['nontrivial']), 'known': st['known'],
                       'labels': st['labels'], 'wall_s': time.time() - st['t0']}, f)

    @settings(database=None, deadline=None, suppress_health_check=list(HealthCheck))
    @given(prop.strategy(tier))
    def test(case):
        out = runner.guarded_run(prop, case)
        st['runs'] += 1
        for k, v in out.labels.items():
            d = st['labels'].setdefault(k, {})
            d[str(v)] = d.get(str(v), 0) + 1
        if out.nontrivial and len(st['nontrivial']) < 200000:
            st['nontrivial'].add(runner.digest(case))
        if not out.ok:
            if out.key in open_keys:
                st['known'][out.key] = st['known'].get(out.key, 0) + 1
            else:
                with open(os.path.join(outdir, 'violation.json'), 'w') as f:
                    json.dump({'case': case, 'msg': out.msg, 'key': out.key}, f, default=str)
                flush()
                raise AssertionError(out.msg)
        if st['runs'] % 500 == 0:
            flush()

    flush()
    atheris.Setup(fargs, test.hypothesis.fuzz_one_input)
    atheris.Fuzz()


if __name__ == '__main__':
    main()
