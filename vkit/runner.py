"""Driver shared by all property checks.

A property module (props/cXX.py) exposes ``PROP``, an instance of a subclass of
:class:`Prop`.  Every check is split into

* ``strategy(tier)``   -> Hypothesis strategy producing a JSON-serialisable case
* ``enumerate(tier, shard, nshards)`` -> deterministic (exhaustive) cases
* ``run_case(case)``   -> :class:`Outcome`

so that replay files and the committed regression corpus call ``run_case``
directly, bypassing the library.

Exit codes: 0 = property held on everything explored (KNOWN-FINDING lines are
informational), 1 = violation (a ``VIOLATION property=.. replay=..`` line is
printed), 2 = harness error / inconclusive.
"""

from __future__ import annotations

import argparse
import concurrent.futures
import hashlib
import importlib
import json
import multiprocessing
import os
import sys
import time
import traceback
from typing import Any, Iterable

VERIF = os.path.dirname(os.path.dirname(os.path.abspath(__file__)))
REPO = os.environ.get('VERIF_REPO', '/repo')
EVIDENCE_DIR = os.environ.get('VERIF_EVIDENCE_DIR', os.path.join(VERIF, 'evidence'))
REPLAY_DIR = os.environ.get('VERIF_REPLAY_DIR', os.path.join(VERIF, 'replay'))
GUARD = 'KFAC_PYTORCH_VERIF'


def setup_paths() -> None:
    """Import kfac from the repository's *working tree* (rebuild = re-import)."""
    os.environ.setdefault(GUARD, '1')
    for p in (REPO, VERIF):
        if p in sys.path:
            sys.path.remove(p)
    sys.path.insert(0, VERIF)
    sys.path.insert(0, REPO)


class Outcome:
    __slots__ = ('ok', 'msg', 'key', 'nontrivial', 'labels', 'info')

    def __init__(self, ok, msg='', key='', nontrivial=False, labels=None, info=None):
        self.ok = ok
        self.msg = msg
        self.key = key
        self.nontrivial = nontrivial
        self.labels = labels or {}
        self.info = info or {}


def passed(nontrivial: bool = False, labels: dict | None = None, info: dict | None = None) -> Outcome:
    return Outcome(True, nontrivial=nontrivial, labels=labels, info=info)


def violation(msg: str, key: str = 'generic', nontrivial: bool = True,
              labels: dict | None = None, info: dict | None = None) -> Outcome:
    return Outcome(False, msg=msg, key=key, nontrivial=nontrivial, labels=labels, info=info)


class Prop:
    """Base class of a property check."""

    id = 'C00'
    title = ''
    rule = ''
    assumptions: list[str] = []
    level = 'exploration'
    exhaustive = False
    # number of Hypothesis examples per shard and number of shards, per tier
    examples = {'quick': 100, 'thorough': 1000}
    shards = {'quick': 1, 'thorough': 16}
    enum_shards = {'quick': 1, 'thorough': 16}
    shrink_budget_s = {'quick': 15.0, 'thorough': 120.0}
    # labels that must have been seen at least once (vacuity guard -> exit 2)
    required_labels: dict[str, list[str]] = {'quick': [], 'thorough': []}

    def strategy(self, tier: str):  # pragma: no cover - overridden
        return None

    def enumerate(self, tier: str, shard: int, nshards: int) -> Iterable[Any]:
        return ()

    def run_case(self, case: Any) -> Outcome:  # pragma: no cover - overridden
        raise NotImplementedError

    def summarize(self, infos: list[dict]) -> dict:
        """Optional numeric summary over Outcome.info of executed cases."""
        return {}


def canon(case: Any) -> str:
    return json.dumps(case, sort_keys=True, separators=(',', ':'), default=str)


def digest(case: Any) -> str:
    return hashlib.sha1(canon(case).encode()).hexdigest()


class Stats:
    def __init__(self) -> None:
        self.evaluations = 0
        self.nontrivial: set[str] = set()
        self.labels: dict[str, dict[str, int]] = {}
        self.samples: list[Any] = []          # (size, case) of non-trivial cases
        self.known: dict[str, int] = {}
        self.infos: list[dict] = []
        self.violations: list[dict] = []
        self.harness_errors: list[str] = []
        self.enumerated = 0
        self.generated = 0
        self.regress = 0

    def record(self, case: Any, out: Outcome, source: str) -> None:
        self.evaluations += 1
        if source == 'enum':
            self.enumerated += 1
        elif source == 'gen':
            self.generated += 1
        else:
            self.regress += 1
        for k, v in out.labels.items():
            d = self.labels.setdefault(k, {})
            d[str(v)] = d.get(str(v), 0) + 1
        if out.info and len(self.infos) < 20000:
            self.infos.append(out.info)
        if out.nontrivial:
            dg = digest(case)
            if dg not in self.nontrivial:
                self.nontrivial.add(dg)
                size = len(canon(case))
                self._sample(size, case)

    def _sample(self, size: int, case: Any) -> None:
        # keep: first, smallest-so-far, largest-so-far, and a reservoir of a few
        if len(self.samples) < 6:
            self.samples.append((size, case))
            return
        sizes = [s for s, _ in self.samples]
        if size > max(sizes):
            self.samples[sizes.index(max(sizes))] = (size, case)

    def merge(self, other: 'Stats') -> None:
        self.evaluations += other.evaluations
        self.enumerated += other.enumerated
        self.generated += other.generated
        self.regress += other.regress
        self.nontrivial |= other.nontrivial
        for k, d in other.labels.items():
            dd = self.labels.setdefault(k, {})
            for v, n in d.items():
                dd[v] = dd.get(v, 0) + n
        for s in other.samples:
            if len(self.samples) < 12:
                self.samples.append(s)
        for k, n in other.known.items():
            self.known[k] = self.known.get(k, 0) + n
        self.infos.extend(other.infos[: max(0, 20000 - len(self.infos))])
        self.violations.extend(other.violations)
        self.harness_errors.extend(other.harness_errors)


def load_prop(pid: str) -> Prop:
    setup_paths()
    mod = importlib.import_module('props.' + pid.lower())
    return mod.PROP


def load_known(pid: str) -> tuple[dict[str, dict], list[dict]]:
    path = os.path.join(VERIF, 'known_findings.json')
    if not os.path.exists(path):
        return {}, []
    data = json.load(open(path))
    mine = [f for f in data.get('findings', []) if pid in f.get('properties', [f.get('property')])]
    open_ = {f['key']: f for f in mine if f.get('status') == 'open'}
    fixed = [f for f in mine if f.get('status') == 'fixed']
    return open_, fixed


class _Violation(Exception):
    pass


def _limit_threads() -> None:
    try:
        import torch
        torch.set_num_threads(1)
        # oneDNN's bfloat16 convolution is not run-to-run deterministic on this CPU (observed: identical model and
        # input give different outputs); bit-identity oracles need the native kernels
        torch.backends.mkldnn.enabled = False
    except Exception:
        pass
    # Every log record of the library is really produced and formatted (as with a verbose log level in a user's script), so that
    # whatever a log statement evaluates is evaluated; the text goes nowhere.
    import logging

    class _Swallow(logging.Handler):
        def emit(self, record):
            try:
                self.format(record)
            except Exception:  # noqa: BLE001
                pass
    lg = logging.getLogger('kfac')
    if not any(isinstance(h, _Swallow) or type(h).__name__ == '_Swallow' for h in lg.handlers):
        lg.addHandler(_Swallow())
    lg.setLevel(logging.DEBUG)
    lg.propagate = False


def _run_one(prop: Prop, case: Any, stats: Stats, source: str, open_keys: dict) -> Outcome | None:
    """Run a case; classify. Returns the Outcome if it is an *unlisted* violation."""
    out = guarded_run(prop, case)
    stats.record(case, out, source)
    if out.ok:
        return None
    if out.key in open_keys:
        stats.known[out.key] = stats.known.get(out.key, 0) + 1
        return None
    return out


def guarded_run(prop: Prop, case: Any) -> Outcome:
    """run_case with exception bucketing: an exception that escapes run_case and whose traceback passes through the
    repository's kfac package was raised by the code under test on an input that is valid by construction -> violation
    keyed by (exception type, innermost kfac frame).  Anything else is a harness error and propagates."""
    try:
        return prop.run_case(case)
    except Exception as e:  # noqa: BLE001
        root = os.path.join(os.path.abspath(REPO), 'kfac') + os.sep
        frames = [f for f in traceback.extract_tb(e.__traceback__) if os.path.abspath(f.filename).startswith(root)]
        if not frames or 'harness' in str(e):
            raise
        f = frames[-1]
        where = f'{os.path.relpath(f.filename, os.path.abspath(REPO))}:{f.lineno} in {f.name}'
        return violation(f'{type(e).__name__}: {e} (raised at {where} on an input that is valid by construction)',
                         f'exception:{type(e).__name__}@{os.path.basename(f.filename)}:{f.name}')


def _shard_worker(args) -> Stats:
    pid, tier, seed, shard, nshards, n_examples, do_enum, do_gen = args
    setup_paths()
    _limit_threads()
    prop = load_prop(pid)
    open_keys, _ = load_known(pid)
    stats = Stats()
    try:
        if do_enum:
            for case in prop.enumerate(tier, shard, nshards):
                bad = _run_one(prop, case, stats, 'enum', open_keys)
                if bad is not None:
                    stats.violations.append({'case': case, 'msg': bad.msg, 'key': bad.key})
                    break
        if do_gen and not stats.violations:
            _hypothesis_search(prop, tier, seed * 1000 + shard, n_examples, stats, open_keys)
    except Exception:
        stats.harness_errors.append(traceback.format_exc())
    return stats


def _hypothesis_search(prop: Prop, tier: str, seed: int, n_examples: int, stats: Stats, open_keys: dict) -> None:
    import hypothesis
    from hypothesis import HealthCheck, Phase, given, settings

    strat = prop.strategy(tier)
    if strat is None or n_examples <= 0:
        return
    state = {'best': None, 'best_digest': None, 'best_out': None, 'deadline': None}
    failed: dict = {}
    budget = prop.shrink_budget_s[tier]
    try:  # Hypothesis' shrinker has a hard 5 min cap; lower it to this tier's budget
        import hypothesis.internal.conjecture.engine as _eng
        _eng.MAX_SHRINKING_SECONDS = budget
    except Exception:
        pass

    @hypothesis.seed(seed)
    @settings(
        max_examples=n_examples,
        database=None,
        deadline=None,
        derandomize=False,
        report_multiple_bugs=False,
        suppress_health_check=list(HealthCheck),
        phases=(Phase.generate, Phase.shrink),
        print_blob=False,
    )
    @given(strat)
    def test(case):
        shrinking = state['best'] is not None
        d = digest(case)
        if shrinking and time.time() > state['deadline']:
            # shrink budget exhausted: answer from the cache of outcomes already observed (keeps Hypothesis' final
            # replay of its minimal example consistent), treat anything not yet seen as passing
            if d in failed:
                state['best'], state['best_digest'], state['best_out'] = case, d, failed[d]
                raise _Violation(failed[d].msg)
            return
        bad = _run_one(prop, case, stats if not shrinking else Stats(), 'gen', open_keys)
        if bad is None:
            return
        if state['deadline'] is None:
            state['deadline'] = time.time() + budget
        failed[d] = bad
        state['best'], state['best_digest'], state['best_out'] = case, d, bad
        raise _Violation(bad.msg)

    try:
        test()
    except _Violation:
        pass
    except Exception as e:  # includes hypothesis Flaky etc.
        if state['best'] is None:
            raise
        stats.harness_errors.append('note: hypothesis raised %r after a violation was recorded' % (e,))
    if state['best'] is not None:
        bad = state['best_out']
        stats.violations.append({'case': state['best'], 'msg': bad.msg, 'key': bad.key})


def _write_replay(pid: str, case: Any) -> str:
    d = os.path.join(REPLAY_DIR, pid)
    os.makedirs(d, exist_ok=True)
    path = os.path.join(d, digest(case)[:16] + '.json')
    with open(path, 'w') as f:
        json.dump(case, f, indent=1, sort_keys=True, default=str)
    return path


def run_check(pid: str, tier: str, seed: int) -> int:
    t0 = time.time()
    setup_paths()
    _limit_threads()
    prop = load_prop(pid)
    open_keys, fixed = load_known(pid)
    stats = Stats()
    violations: list[dict] = []

    # 1. committed regression corpus + recorded reproductions of known findings,
    #    executed in a worker process so that the parent never starts threads.
    ctx = multiprocessing.get_context('fork')
    with concurrent.futures.ProcessPoolExecutor(max_workers=1, mp_context=ctx) as ex:
        rs = ex.submit(_regress_worker, pid).result()
    stats.merge(rs['stats'])
    for line in rs['lines']:
        print(line, flush=True)
    violations.extend(rs['stats'].violations)
    rs['stats'].violations = []

    # 2. enumeration + generated search, sharded
    if not violations and not stats.harness_errors:
        nsh = max(prop.shards[tier], prop.enum_shards[tier])
        jobs = []
        for i in range(nsh):
            do_enum = i < prop.enum_shards[tier]
            do_gen = i < prop.shards[tier]
            jobs.append((pid, tier, seed, i, prop.enum_shards[tier] if do_enum else 1,
                         prop.examples[tier], do_enum, do_gen))
        workers = min(len(jobs), int(os.environ.get('VERIF_JOBS', '16')))
        with concurrent.futures.ProcessPoolExecutor(max_workers=workers, mp_context=ctx) as ex:
            for st in ex.map(_shard_worker, jobs):
                stats.merge(st)
        violations.extend(stats.violations)

    # 2b. optional coverage-guided campaign (atheris/libFuzzer driving the same Hypothesis strategy)
    fuzz_info = None
    fz = getattr(prop, 'fuzz', {}).get(tier)
    if fz and not violations and not stats.harness_errors:
        fuzz_info = _coverage_guided(pid, tier, seed, fz, stats, violations)

    # 3. report
    rc = 0
    for key, n in sorted(stats.known.items()):
        f = open_keys[key]
        print(f'KNOWN-FINDING: property={pid} {key}: {f["what"][:300]} (met {n}x in this run)', flush=True)
    for f in open_keys.values():
        if f['key'] not in stats.known:
            print(f'note: open known finding {f["key"]} was not reproduced in this run', flush=True)
    seen = set()
    for v in violations:
        path = _write_replay(pid, v['case'])
        if path in seen:
            continue
        seen.add(path)
        print(f'VIOLATION property={pid} replay={path}', flush=True)
        print(f'  key={v["key"]} :: {v["msg"][:2000]}', flush=True)
        rc = 1
    real_errors = [e for e in stats.harness_errors if not e.startswith('note:')]
    for e in stats.harness_errors:
        print(('HARNESS-ERROR ' if not e.startswith('note:') else '') + e, file=sys.stderr, flush=True)
    if rc == 0 and real_errors:
        rc = 2
    missing = []
    for lab in prop.required_labels.get(tier, []):
        k, _, v = lab.partition('=')
        if stats.labels.get(k, {}).get(v, 0) == 0:
            missing.append(lab)
    if rc == 0 and missing:
        print(f'HARNESS-ERROR vacuity guard: classes never generated: {missing}', file=sys.stderr)
        rc = 2

    _write_evidence(prop, tier, seed, stats, len(seen), time.time() - t0, open_keys, fixed, fuzz_info)
    print(f'{pid} tier={tier} seed={seed} evaluations={stats.evaluations} '
          f'nontrivial={len(stats.nontrivial)} known={sum(stats.known.values())} '
          f'violations={len(seen)} wall={time.time() - t0:.1f}s rc={rc}', flush=True)
    return rc


def _regress_worker(pid: str) -> dict:
    setup_paths()
    _limit_threads()
    prop = load_prop(pid)
    open_keys, _ = load_known(pid)
    stats = Stats()
    lines: list[str] = []
    try:
        rdir = os.path.join(VERIF, 'regress', pid)
        files = sorted(os.listdir(rdir)) if os.path.isdir(rdir) else []
        for fn in files:
            if not fn.endswith('.json'):
                continue
            case = json.load(open(os.path.join(rdir, fn)))
            bad = _run_one(prop, case, stats, 'regress', open_keys)
            if bad is not None:
                stats.violations.append({'case': case, 'msg': f'[regress/{fn}] ' + bad.msg, 'key': bad.key})
        for key, f in open_keys.items():
            rc = f.get('repro_cases', [])
            if isinstance(rc, dict):          # per-property reproductions
                rc = rc.get(pid, [])
            for case in rc:
                if not isinstance(case, dict):
                    continue
                out = guarded_run(prop, case)
                stats.record(case, out, 'regress')
                if not out.ok and out.key == key:
                    stats.known[key] = stats.known.get(key, 0) + 1
                elif not out.ok:
                    stats.violations.append({'case': case, 'msg': '[known-finding repro, other key] ' + out.msg, 'key': out.key})
                else:
                    lines.append(f'note: recorded reproduction of open finding {key} passes now')
    except Exception:
        stats.harness_errors.append(traceback.format_exc())
    return {'stats': stats, 'lines': lines}


def _coverage_guided(pid: str, tier: str, seed: int, fz: dict, stats: Stats, violations: list) -> dict:
    """Run vkit.fuzz_atheris in parallel subprocesses; merge counts; collect a violation if one was found.
    Trouble with the fuzzing engine itself is recorded as inconclusive, never as a violation."""
    import shutil
    import subprocess
    import tempfile
    info = {'engine': 'atheris (libFuzzer) + hypothesis fuzz_one_input, kfac instrumented for coverage', 'processes': fz.get('procs', 4),
            'runs': 0, 'distinct_nontrivial': 0, 'status': 'ok'}
    if not os.path.isdir(os.path.join(VERIF, '.deps', 'atheris')):
        info['status'] = 'skipped: atheris not installed in .deps (MANIFEST.setup_cmd installs it)'
        return info
    base = tempfile.mkdtemp(prefix='fuzz_', dir='/dev/shm' if os.path.isdir('/dev/shm') else None)
    procs = []
    try:
        for i in range(fz.get('procs', 4)):
            out = os.path.join(base, str(i))
            cmd = [sys.executable, '-m', 'vkit.fuzz_atheris', pid, tier, out, f'-runs={fz["runs"]}', f'-max_total_time={fz["max_time"]}',
                   f'-seed={seed * 100 + i + 1}', '-print_final_stats=0', '-verbosity=0', '-max_len=8192', '-len_control=0']
            procs.append((out, subprocess.Popen(cmd, cwd=VERIF, stdout=subprocess.DEVNULL, stderr=subprocess.DEVNULL, env=dict(os.environ, PYTHONWARNINGS='ignore'))))
        digests = set()
        for out, p in procs:
            try:
                p.wait(timeout=fz['max_time'] * 3 + 120)
            except subprocess.TimeoutExpired:
                p.kill()
                info['status'] = 'inconclusive: a fuzzing process had to be killed'
            sp = os.path.join(out, 'stats.json')
            if os.path.exists(sp):
                sj = json.load(open(sp))
                info['runs'] += sj['runs']
                digests |= set(sj['nontrivial_digests'])
                for k, n in sj['known'].items():
                    stats.known[k] = stats.known.get(k, 0) + n
            else:
                info['status'] = 'inconclusive: a fuzzing process wrote no statistics'
            vp = os.path.join(out, 'violation.json')
            if os.path.exists(vp):
                v = json.load(open(vp))
                violations.append({'case': v['case'], 'msg': '[coverage-guided] ' + v['msg'], 'key': v['key']})
        new = digests - stats.nontrivial
        info['distinct_nontrivial'] = len(digests)
        info['distinct_nontrivial_not_seen_by_random_search'] = len(new)
        stats.evaluations += info['runs']
        stats.nontrivial |= digests
    finally:
        shutil.rmtree(base, ignore_errors=True)
    return info


def _write_evidence(prop: Prop, tier: str, seed: int, stats: Stats, nviol: int, wall: float,
                    open_keys: dict, fixed: list, fuzz_info: dict | None = None) -> None:
    os.makedirs(EVIDENCE_DIR, exist_ok=True)
    samples = sorted(stats.samples, key=lambda s: s[0])
    picked = []
    if samples:
        idxs = sorted({0, len(samples) // 2, len(samples) - 1})
        picked = [samples[i][1] for i in idxs]
    coverage: dict[str, Any] = {
        'evaluations': stats.evaluations,
        'distinct_nontrivial': len(stats.nontrivial),
        'rule': prop.rule,
        'samples': picked,
        'generated_by_hypothesis': stats.generated,
        'enumerated': stats.enumerated,
        'regression_corpus_and_finding_repros': stats.regress,
        'label_histogram': {k: dict(sorted(v.items())) for k, v in sorted(stats.labels.items())},
        'excluded_by_known_finding': dict(sorted(stats.known.items())),
        'open_known_findings': sorted(open_keys),
        'fixed_findings': [f['key'] for f in fixed],
    }
    if fuzz_info is not None:
        coverage['coverage_guided'] = fuzz_info
    if prop.exhaustive:
        coverage['exhaustive'] = True
    try:
        coverage.update(prop.summarize(stats.infos) or {})
    except Exception:
        coverage['summary_error'] = traceback.format_exc()
    ev = {
        'property_id': prop.id,
        'tier': tier,
        'seed': seed,
        'level': prop.level,
        'coverage': coverage,
        'assumptions': list(prop.assumptions),
        'wall_s': round(wall, 2),
        'violations': nviol,
    }
    with open(os.path.join(EVIDENCE_DIR, prop.id + '.json'), 'w') as f:
        json.dump(ev, f, indent=1, sort_keys=True, default=str)


def replay(pid: str, path: str) -> int:
    setup_paths()
    _limit_threads()
    prop = load_prop(pid)
    open_keys, _ = load_known(pid)
    case = json.load(open(path))
    out = guarded_run(prop, case)
    if out.ok:
        print(f'replay {path}: property held (nontrivial={out.nontrivial})')
        return 0
    if out.key in open_keys:
        print(f'KNOWN-FINDING: property={pid} {out.key}: {open_keys[out.key]["what"]}')
        print('  ' + out.msg[:2000])
        return 0
    print(f'VIOLATION property={pid} replay={path}')
    print(f'  key={out.key} :: {out.msg[:4000]}')
    return 1


def main(argv: list[str] | None = None) -> int:
    ap = argparse.ArgumentParser()
    ap.add_argument('prop')
    ap.add_argument('--tier', default=os.environ.get('VERIF_TIER', 'quick'), choices=['quick', 'thorough'])
    ap.add_argument('--seed', type=int, default=int(os.environ.get('VERIF_SEED', '1') or 1))
    ap.add_argument('--replay')
    a = ap.parse_args(argv)
    pid = a.prop.upper()
    try:
        if a.replay:
            return replay(pid, a.replay)
        return run_check(pid, a.tier, a.seed)
    except SystemExit:
        raise
    except Exception:
        traceback.print_exc()
        print('HARNESS-ERROR (exit 2)', file=sys.stderr)
        return 2


if __name__ == '__main__':
    sys.exit(main())
