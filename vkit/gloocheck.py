"""Cross-validation of vkit/simdist against real gloo process groups (fork + loopback), KAISA paths only.

run_gloo(case, program) runs the same RankRunner program on W real processes and returns, per rank, the gradients
after every train op and the per-group sequences of collectives the code issued.  Infrastructure trouble (ports,
timeouts) is reported as None (= inconclusive), never as a property violation.
"""

from __future__ import annotations

import multiprocessing
import os
import socket
import traceback


def _free_port() -> int:
    s = socket.socket()
    s.bind(('127.0.0.1', 0))
    p = s.getsockname()[1]
    s.close()
    return p


def _worker(rank, W, port, case, program, q):
    try:
        import warnings
        warnings.simplefilter('ignore')
        import torch
        import torch.distributed as dist
        torch.set_num_threads(1)
        os.environ.update(MASTER_ADDR='127.0.0.1', MASTER_PORT=str(port), RANK=str(rank), WORLD_SIZE=str(W))
        dist.init_process_group('gloo', rank=rank, world_size=W)
        log = []
        groups = {None: tuple(range(W))}
        real = {k: getattr(dist, k) for k in ('all_reduce', 'broadcast', 'new_group')}

        def new_group(ranks=None, *a, **k):
            g = real['new_group'](ranks, *a, **k)
            groups[g] = tuple(sorted(range(W) if ranks is None else ranks))
            log.append(('new_group', groups[g]))
            return g

        def all_reduce(t, op=dist.ReduceOp.SUM, group=None, async_op=False):
            log.append(('all_reduce', groups.get(group, 'world' if group is None else '?'), tuple(t.shape), str(t.dtype), None))
            return real['all_reduce'](t, op=op, group=group, async_op=async_op)

        def broadcast(t, src, group=None, async_op=False):
            log.append(('broadcast', groups.get(group, '?'), tuple(t.shape), str(t.dtype), src))
            return real['broadcast'](t, src=src, group=group, async_op=async_op)

        dist.new_group, dist.all_reduce, dist.broadcast = new_group, all_reduce, broadcast
        from vkit import kaisa
        recs = kaisa.RankRunner(case, rank, W, ()).run(program)
        out = [{n: (None if g is None else g.tolist()) for n, g in r['after'].items()} for r in recs if r['op'] == 'train']
        dist.barrier()
        q.put((rank, 'ok', out, log))
        dist.destroy_process_group()
    except Exception:  # noqa: BLE001
        q.put((rank, 'error', traceback.format_exc(), None))


def run_gloo(case, program, timeout=90):
    W = case['W']
    ctx = multiprocessing.get_context('fork')
    q = ctx.Queue()
    port = _free_port()
    procs = [ctx.Process(target=_worker, args=(r, W, port, case, program, q)) for r in range(W)]
    for p in procs:
        p.start()
    results = {}
    try:
        for _ in range(W):
            rank, status, out, log = q.get(timeout=timeout)
            results[rank] = (status, out, log)
    except Exception:  # noqa: BLE001  (queue.Empty: timeout)
        results = None
    for p in procs:
        p.join(5)
        if p.is_alive():
            p.terminate()
    return results
