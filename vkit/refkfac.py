"""Float64 reference K-FAC, written from the property statements (C01/C04/C05/C07/C09).

Uses none of kfac's code.  Factors, snapshots and solves are float64; the
systems are solved densely (Kronecker form for the eigen method) so that the
formulation is independent of the implementation's eigenbasis arithmetic.
"""

from __future__ import annotations

import math

import torch
import torch.nn.functional as F

EPS = {torch.float32: 2.0 ** -23, torch.float64: 2.0 ** -52, torch.bfloat16: 2.0 ** -7, torch.float16: 2.0 ** -10}


def hp_value(v, step):
    return v(step) if callable(v) else v


def input_rows(module, x):
    """Bias-augmented (conv: patch-unfolded, spatially normalised) input rows, float64. Returns (rows, nrows)."""
    x = x.to(torch.float64)
    if isinstance(module, torch.nn.Conv2d):
        unf = F.unfold(x, kernel_size=module.kernel_size, padding=module.padding, stride=module.stride)
        L = unf.shape[-1]
        rows = unf.transpose(1, 2).reshape(-1, unf.shape[1])
        if module.bias is not None:
            rows = torch.cat([rows, torch.ones(rows.shape[0], 1, dtype=torch.float64)], 1)
        return rows / L
    rows = x.reshape(-1, x.shape[-1])
    if module.bias is not None:
        rows = torch.cat([rows, torch.ones(rows.shape[0], 1, dtype=torch.float64)], 1)
    return rows


def gout_rows(module, g):
    g = g.to(torch.float64)
    if isinstance(module, torch.nn.Conv2d):
        L = g.shape[2] * g.shape[3]
        return g.permute(0, 2, 3, 1).reshape(-1, g.shape[1]) / L
    return g.reshape(-1, g.shape[-1])


def second_moment(rows):
    return rows.t() @ rows / rows.shape[0]


def psd(M):
    M = (M + M.t()) / 2
    w, q = torch.linalg.eigh(M)
    return (q * w.clamp(min=0)) @ q.t(), w.clamp(min=0)


def solve_inverse(A, G, lam, D):
    n_a, n_g = A.shape[0], G.shape[0]
    Ad = A + lam * torch.eye(n_a, dtype=torch.float64)
    Gd = G + lam * torch.eye(n_g, dtype=torch.float64)
    V = torch.linalg.solve(Gd, D)
    V = torch.linalg.solve(Ad.t(), V.t()).t()
    kappa = torch.linalg.cond(Ad).item() * torch.linalg.cond(Gd).item()
    return V, kappa


def solve_eigen(A, G, lam, D):
    """Solve G V A + lam V = D with PSD-projected factors via the dense Kronecker system (column-major vec)."""
    Ap, wa = psd(A)
    Gp, wg = psd(G)
    n_a, n_g = A.shape[0], G.shape[0]
    K = torch.kron(Ap, Gp) + lam * torch.eye(n_a * n_g, dtype=torch.float64)
    v = torch.linalg.solve(K, D.t().reshape(-1))
    V = v.reshape(n_a, n_g).t()
    kappa = (wa.max().item() * wg.max().item() + lam) / (wa.min().item() * wg.min().item() + lam)
    return V, kappa


def residual_inverse(A, G, lam, V, D):
    n_a, n_g = A.shape[0], G.shape[0]
    return (G + lam * torch.eye(n_g, dtype=torch.float64)) @ V @ (A + lam * torch.eye(n_a, dtype=torch.float64)) - D


def residual_eigen(A, G, lam, V, D):
    Ap, _ = psd(A)
    Gp, _ = psd(G)
    return Gp @ V @ Ap + lam * V - D


def clip_scale(kl_clip, lr, pairs):
    """nu = min(1, sqrt(kl / |sum <V,D> lr^2|)); pairs = [(V, D)] float64."""
    if kl_clip is None:
        return 1.0, 0.0
    vg = sum((V * D).sum().item() for V, D in pairs) * lr ** 2
    if vg == 0.0:
        return 1.0, vg
    return min(1.0, math.sqrt(kl_clip / abs(vg))), vg


class RefLayer:
    def __init__(self, name, module):
        self.name = name
        self.module = module
        self.A = None
        self.G = None
        self.snap = None          # (A_s, G_s, damping_s)
        self.accA = []            # per micro-batch second moments
        self.accG = []


class RefKFAC:
    """Lock-step reference state machine.

    `hp` maps factor_update_steps, inv_update_steps, damping, factor_decay, kl_clip, lr to constants or callables
    evaluated at the reference's own step counter.
    """

    def __init__(self, layers, *, method='eigen', prediv=True, hp=None, accumulation=1, in_hook=True,
                 factor_dtype=None, grad_scale=None):
        self.layers = {n: RefLayer(n, m) for n, m in layers.items()}
        self.method = method
        self.prediv = prediv
        self.hp = dict(hp or {})
        self.accumulation = accumulation
        self.in_hook = in_hook
        self.factor_dtype = factor_dtype
        self.grad_scale = grad_scale
        self.steps = 0
        self.mini = 0
        self.last_factor_update = False
        self.last_refresh = False

    def get(self, key):
        return hp_value(self.hp[key], self.steps)

    def is_factor_step(self):
        return self.steps % self.get('factor_update_steps') == 0

    def is_refresh_step(self):
        return self.steps % self.get('inv_update_steps') == 0

    # -- factor accumulation -------------------------------------------------
    def _quant(self, t):
        return t.to(self.factor_dtype) if self.factor_dtype is not None else t

    def observe(self, recs_per_rank):
        """One train-mode micro-batch: recs_per_rank = [ {name: (input, grad_out)} per rank ]."""
        if not self.is_factor_step():
            return
        self.mini += 1
        for n, L in self.layers.items():
            mA, mG = [], []
            for recs in recs_per_rank:
                a, g = recs[n]
                mA.append(second_moment(input_rows(L.module, self._quant(a))))
                if g is None:
                    continue               # a forward-only pass: an input was seen, no output gradient
                g = self._quant(g)
                if self.grad_scale is not None:
                    g = g / self.grad_scale
                mG.append(second_moment(gout_rows(L.module, g)))
            L.accA.append(mA)
            if mG:
                L.accG.append(mG)
        if self.in_hook and self.mini % self.accumulation == 0:
            self._update_factors()

    def _update_factors(self):
        alpha = self.get('factor_decay')
        for L in self.layers.values():
            if not L.accA:
                continue
            nr = len(L.accA[0])
            # mean over micro-batches on each rank, then over ranks
            MA = sum(sum(mb[r] for mb in L.accA) / len(L.accA) for r in range(nr)) / nr
            MG = sum(sum(mb[r] for mb in L.accG) / len(L.accG) for r in range(nr)) / nr
            L.accA, L.accG = [], []
            pa = L.A if L.A is not None else torch.eye(MA.shape[0], dtype=torch.float64)
            pg = L.G if L.G is not None else torch.eye(MG.shape[0], dtype=torch.float64)
            L.A = alpha * pa + (1 - alpha) * MA
            L.G = alpha * pg + (1 - alpha) * MG
        self.factors_changed = True

    def reset_batch(self):
        for L in self.layers.values():
            L.accA, L.accG = [], []

    # -- step -----------------------------------------------------------------
    def step(self, D, refresh_from=None):
        """D = {name: combined gradient float64}. Returns ({name: nu*V}, info)."""
        self.factors_changed = getattr(self, 'factors_changed', False)
        if not self.in_hook and self.is_factor_step():
            self._update_factors()
        self.last_factor_update = self.factors_changed
        self.factors_changed = False
        lam = self.get('damping')
        self.last_refresh = self.is_refresh_step()
        if self.last_refresh:
            for L in self.layers.values():
                L.snap = (L.A.clone(), L.G.clone(), lam)
        out, pairs, kappas = {}, [], {}
        for n, L in self.layers.items():
            A_s, G_s, lam_s = L.snap
            if self.method == 'inverse':
                V, k = solve_inverse(A_s, G_s, lam_s, D[n])
            else:
                V, k = solve_eigen(A_s, G_s, lam_s if self.prediv else lam, D[n])
            out[n] = V
            kappas[n] = k
            pairs.append((V, D[n]))
        nu, vg = clip_scale(self.get('kl_clip'), self.get('lr'), pairs)
        res = {n: nu * V for n, V in out.items()}
        self.steps += 1
        self.mini = 0
        return res, {'nu': nu, 'vg': vg, 'kappa': kappas, 'unclipped': out}

    def save_state(self):
        def c(t):
            return None if t is None else t.clone()
        return {'steps': self.steps, 'mini': self.mini, 'hp': dict(self.hp), 'fc': getattr(self, 'factors_changed', False),
                'layers': {n: (c(L.A), c(L.G), None if L.snap is None else (L.snap[0].clone(), L.snap[1].clone(), L.snap[2]),
                               list(L.accA), list(L.accG)) for n, L in self.layers.items()}}

    def load_state(self, st):
        self.steps, self.mini, self.hp, self.factors_changed = st['steps'], st['mini'], dict(st['hp']), st['fc']
        for n, (A, G, snap, accA, accG) in st['layers'].items():
            L = self.layers[n]
            L.A = None if A is None else A.clone()
            L.G = None if G is None else G.clone()
            L.snap = None if snap is None else (snap[0].clone(), snap[1].clone(), snap[2])
            L.accA, L.accG = list(accA), list(accG)

    def refresh_snapshots(self):
        """Second-order data recomputed from the current factors at the current damping (checkpoint load)."""
        lam = self.get('damping')
        for L in self.layers.values():
            if L.A is not None and L.G is not None:
                L.snap = (L.A.clone(), L.G.clone(), lam)


def tolerance(kappa, n, eps, c=16.0):
    return c * math.sqrt(n) * eps * kappa
