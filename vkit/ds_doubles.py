"""Stand-ins for DeepSpeed / Megatron (neither is installed, nothing can be fetched).

``install()`` registers ``deepspeed``, ``deepspeed.pipe`` (PipelineModule) and
``deepspeed.runtime.pipe.topology`` (PipeModelDataParallelTopology: axes pipe, data, model, row-major rank
numbering, get_coord, get_axis_comm_lists, world_size - the documented DeepSpeed behaviour) in ``sys.modules``
*before* kfac.gpt_neox.* is imported.  ColumnParallelLinear / RowParallelLinear hold the real shards of a full
layer and implement Megatron's forward/backward (copy_to / reduce_from model-parallel region) with whatever
``torch.distributed`` is active (the simulator).  They are leaf modules whose class names are exactly those the
GPT-NeoX preconditioner looks for.
"""

from __future__ import annotations

import itertools
import sys
import types
from collections import namedtuple

import torch
import torch.distributed as dist
from torch import nn

ProcessCoord = namedtuple('ProcessCoord', ['pipe', 'data', 'model'])


class PipeModelDataParallelTopology:
    def __init__(self, num_pp: int, num_mp: int, num_dp: int) -> None:
        self.axes = ['pipe', 'data', 'model']
        self.dims = [num_pp, num_dp, num_mp]
        self.mapping = {}
        for rank, coord in enumerate(itertools.product(range(num_pp), range(num_dp), range(num_mp))):
            self.mapping[ProcessCoord(*coord)] = rank

    def world_size(self) -> int:
        return self.dims[0] * self.dims[1] * self.dims[2]

    def get_dim(self, axis: str) -> int:
        return self.dims[self.axes.index(axis)]

    def get_coord(self, rank: int) -> ProcessCoord:
        for coord, r in self.mapping.items():
            if r == rank:
                return coord
        raise ValueError(f'rank {rank} not found in topology.')

    def get_rank(self, **coord) -> int:
        return self.mapping[ProcessCoord(**coord)]

    def get_axis_comm_lists(self, axis: str) -> list[list[int]]:
        if axis not in self.axes:
            return []
        other = [a for a in self.axes if a != axis]
        lists = []
        for vals in itertools.product(*[range(self.get_dim(a)) for a in other]):
            fixed = dict(zip(other, vals))
            lists.append([self.mapping[ProcessCoord(**dict(fixed, **{axis: i}))] for i in range(self.get_dim(axis))])
        return lists


class PipelineModule(nn.Module):
    """Holds the layers of *this rank's* pipeline stage, registered under their global layer index."""

    def __init__(self, layers: dict[str, nn.Module], topology: PipeModelDataParallelTopology) -> None:
        super().__init__()
        for name, m in layers.items():
            self.add_module(name, m)
        self._topo = topology
        self.order = list(layers)

    def topology(self) -> PipeModelDataParallelTopology:
        return self._topo

    def forward(self, x):
        for n in self.order:
            x = getattr(self, n)(x)
        return x


def install() -> None:
    if 'deepspeed' in sys.modules and getattr(sys.modules['deepspeed'], '__verif_double__', False):
        return
    ds = types.ModuleType('deepspeed')
    ds.__verif_double__ = True
    pipe = types.ModuleType('deepspeed.pipe')
    pipe.PipelineModule = PipelineModule
    runtime = types.ModuleType('deepspeed.runtime')
    rpipe = types.ModuleType('deepspeed.runtime.pipe')
    topo = types.ModuleType('deepspeed.runtime.pipe.topology')
    topo.PipeModelDataParallelTopology = PipeModelDataParallelTopology
    topo.ProcessCoord = ProcessCoord
    ds.pipe, ds.runtime, runtime.pipe, rpipe.topology = pipe, runtime, rpipe, topo
    sys.modules.update({'deepspeed': ds, 'deepspeed.pipe': pipe, 'deepspeed.runtime': runtime,
                        'deepspeed.runtime.pipe': rpipe, 'deepspeed.runtime.pipe.topology': topo})


# -- Megatron model-parallel regions -----------------------------------------------------------

class _CopyToModelParallelRegion(torch.autograd.Function):
    @staticmethod
    def forward(ctx, x, group):
        ctx.group = group
        return x.view_as(x)

    @staticmethod
    def backward(ctx, g):
        g = g.contiguous().clone()
        if dist.get_world_size(ctx.group) > 1:
            dist.all_reduce(g, group=ctx.group)
        return g, None


class _ReduceFromModelParallelRegion(torch.autograd.Function):
    @staticmethod
    def forward(ctx, x, group):
        x = x.contiguous().clone()
        if dist.get_world_size(group) > 1:
            dist.all_reduce(x, group=group)
        return x

    @staticmethod
    def backward(ctx, g):
        return g, None


class ColumnParallelLinear(nn.Module):
    """Output-parallel linear layer: weight shard (out/mp, in), bias shard (out/mp); output stays partitioned."""

    def __init__(self, weight: torch.Tensor, bias: torch.Tensor | None, group, mp_rank: int, mp: int) -> None:
        super().__init__()
        out = weight.shape[0] // mp
        self.weight = nn.Parameter(weight[mp_rank * out:(mp_rank + 1) * out].clone())
        self.bias = nn.Parameter(bias[mp_rank * out:(mp_rank + 1) * out].clone()) if bias is not None else None
        self.group = [group]       # in a list: a ProcessGroup must not become a registered attribute of the module tree

    def forward(self, x):
        x = _CopyToModelParallelRegion.apply(x, self.group[0])
        return torch.nn.functional.linear(x, self.weight, self.bias)


class RowParallelLinear(nn.Module):
    """Input-parallel linear layer: weight shard (out, in/mp), full (replicated) bias added after the reduction."""

    def __init__(self, weight: torch.Tensor, bias: torch.Tensor | None, group, mp_rank: int, mp: int) -> None:
        super().__init__()
        inn = weight.shape[1] // mp
        self.weight = nn.Parameter(weight[:, mp_rank * inn:(mp_rank + 1) * inn].clone())
        self.bias = nn.Parameter(bias.clone()) if bias is not None else None
        self.group = [group]

    def forward(self, x):
        y = torch.nn.functional.linear(x, self.weight)
        y = _ReduceFromModelParallelRegion.apply(y, self.group[0])
        return y + self.bias if self.bias is not None else y


class FullMLP(nn.Module):
    """Unsharded reference of one Megatron MLP block: Linear(h, f) -> tanh -> Linear(f, h)."""

    def __init__(self, w1, b1, w2, b2):
        super().__init__()
        self.col = nn.Linear(w1.shape[1], w1.shape[0], bias=b1 is not None)
        self.row = nn.Linear(w2.shape[1], w2.shape[0], bias=b2 is not None)
        with torch.no_grad():
            self.col.weight.copy_(w1)
            self.row.weight.copy_(w2)
            if b1 is not None:
                self.col.bias.copy_(b1)
            if b2 is not None:
                self.row.bias.copy_(b2)

    def forward(self, x):
        return self.row(torch.tanh(self.col(x)))


class ShardedMLP(nn.Module):
    def __init__(self, w1, b1, w2, b2, group, mp_rank, mp):
        super().__init__()
        self.col = ColumnParallelLinear(w1, b1, group, mp_rank, mp)
        self.row = RowParallelLinear(w2, b2, group, mp_rank, mp)

    def forward(self, x):
        return self.row(torch.tanh(self.col(x)))


def mlp_weights(h: int, f: int, bias1: bool, bias2: bool, seed: int, dtype=torch.float32):
    gen = torch.Generator().manual_seed(seed * 6007 + 3)
    w1 = (torch.randn(f, h, generator=gen) / max(h, 1) ** 0.5).to(dtype)
    w2 = (torch.randn(h, f, generator=gen) / max(f, 1) ** 0.5).to(dtype)
    b1 = (0.3 * torch.randn(f, generator=gen)).to(dtype) if bias1 else None
    b2 = (0.3 * torch.randn(h, generator=gen)).to(dtype) if bias2 else None
    return w1, b1, w2, b2


def make_groups(topo: PipeModelDataParallelTopology, rank: int):
    """Create every data-, model- and pipe-parallel group on every rank in the same order (as DeepSpeed does);
    return this rank's (data_group, model_group, pipe_group)."""
    mine = {}
    for axis in ('data', 'model', 'pipe'):
        for ranks in topo.get_axis_comm_lists(axis):
            g = dist.new_group(ranks)
            if rank in ranks:
                mine[axis] = g
    return mine['data'], mine['model'], mine['pipe']
