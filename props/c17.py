"""C17 - greedy work assignment is complete, group-confined, balanced, deterministic.

Oracle: validity by *replay* (many outputs are correct when costs tie), not one
expected answer; plus purity and independence from PYTHONHASHSEED.
"""

from __future__ import annotations

import copy
import itertools
import json
import os
import subprocess
import sys

from hypothesis import strategies as st

from vkit.runner import Prop, passed, violation, REPO


def set_partitions(items):
    """All partitions of `items` (list) into non-empty blocks."""
    if not items:
        yield []
        return
    first, rest = items[0], items[1:]
    for p in set_partitions(rest):
        for i in range(len(p)):
            yield p[:i] + [[first] + p[i]] + p[i + 1:]
        yield [[first]] + p


def check_assignment(work, groups, world, colocate, result):
    """Return None if `result` is a valid greedy assignment, else (key, message)."""
    if not isinstance(result, dict) or list(result.keys()) != list(work.keys()):
        if not isinstance(result, dict) or set(result.keys()) != set(work.keys()):
            return 'incomplete', f'layers of result {list(result)} != layers of work {list(work)}'
    rank_group = {}
    for gi, g in enumerate(groups):
        for r in g:
            rank_group[r] = gi
    for layer, factors in work.items():
        got = result[layer]
        if set(got.keys()) != set(factors.keys()):
            return 'incomplete', f'factors of {layer}: {sorted(got)} != {sorted(factors)}'
        for f, r in got.items():
            if type(r) is not int or r not in rank_group:
                return 'invalid-rank', f'{layer}/{f} assigned to {r!r}, which is in no worker group {groups}'
        gs = {rank_group[r] for r in got.values()}
        if len(gs) > 1:
            return 'group-confined', f'factors of {layer} spread over groups {sorted(gs)}: {got}'
        if colocate and len(set(got.values())) > 1:
            return 'colocate', f'colocate_factors=True but {layer} is on several workers: {got}'

    totals = {layer: sum(f.values()) for layer, f in work.items()}
    layers = [l for l in work if work[l]]  # layers without factors carry no placement
    loads0 = tuple([0] * world)

    # depth-first replay; loads are a function of the set of placed layers, so memoise on it
    dead = set()

    def factor_orders(layer):
        items = sorted(work[layer].items(), key=lambda kv: -kv[1])
        classes = [list(g) for _, g in itertools.groupby(items, key=lambda kv: kv[1])]
        for combo in itertools.product(*[itertools.permutations(c) for c in classes]):
            yield [kv for c in combo for kv in c]

    def place(layer, loads):
        """Return new loads if the recorded placement of `layer` is greedy-valid at `loads`."""
        got = result[layer]
        gi = rank_group[next(iter(got.values()))]
        gloads = [sum(loads[r] for r in g) for g in groups]
        if gloads[gi] != min(gloads):
            return None
        g = groups[gi]
        if colocate:
            r = next(iter(got.values()))
            if loads[r] != min(loads[x] for x in g):
                return None
            new = list(loads)
            new[r] += totals[layer]
            return tuple(new)
        for order in factor_orders(layer):
            new = list(loads)
            ok = True
            for f, cost in order:
                r = got[f]
                if new[r] != min(new[x] for x in g):
                    ok = False
                    break
                new[r] += cost
            if ok:
                return tuple(new)
        return None

    def dfs(remaining, loads):
        if not remaining:
            return loads
        key = frozenset(remaining)
        if key in dead:
            return None
        top = max(totals[l] for l in remaining)
        for l in remaining:
            if totals[l] != top:
                continue
            new = place(l, loads)
            if new is None:
                continue
            out = dfs([x for x in remaining if x != l], new)
            if out is not None:
                return out
        dead.add(key)
        return None

    final = dfs(layers, loads0)
    if final is None:
        return 'not-greedy', ('no processing order consistent with "layers by non-increasing total cost, each on a '
                              'then-least-loaded group, factors by non-increasing cost each on a then-least-loaded worker" '
                              f'reproduces the result {result}')
    # consequence: balance within the largest single item placed
    if layers:
        big_layer = max(totals[l] for l in layers)
        gl = [sum(final[r] for r in g) for g in groups]
        if max(gl) - min(gl) > big_layer:
            return 'balance', f'group loads {gl} differ by more than the largest layer {big_layer}'
        big_item = big_layer if colocate else max(c for l in layers for c in work[l].values())
        for g in groups:
            wl = [final[r] for r in g]
            if max(wl) - min(wl) > big_item:
                return 'balance', f'worker loads {wl} in group {g} differ by more than the largest item {big_item}'
    return None


COSTS = st.one_of(
    st.sampled_from([0, 0, 1, 1, 2, 3, 5, 8, 27, 64, 125, 1000, 4096]),
    st.integers(0, 12),
    st.integers(-10, 20).map(lambda e: 2.0 ** e),
    st.sampled_from([0.5, 0.5, 1.5, 0.25, 1024.0, 3.0]),
    # very wide ranges as produced by the n^3 heuristic on language-model layers next to tiny ones (all exactly summable < 2^53)
    st.sampled_from([50304 ** 3, 8192 ** 3, 10 ** 12, 10 ** 14, 4096 ** 3, 50 ** 3, 7]),
)


@st.composite
def _case(draw):
    nlayers = draw(st.sampled_from([0, 1, 2, 3, 3, 4, 5, 6, 8, 12]))
    fnames_pool = ['A', 'G', 'B']
    tie_pool = draw(st.lists(COSTS, min_size=1, max_size=3))
    cost = st.one_of(COSTS, st.sampled_from(tie_pool), st.sampled_from(tie_pool))
    work = []
    names = draw(st.permutations([f'l{i}' for i in range(nlayers)])) if nlayers else []
    for n in names:
        nf = draw(st.sampled_from([1, 2, 2, 2, 3]))
        fn = draw(st.permutations(fnames_pool))[:nf]
        work.append([n, [[f, draw(cost)] for f in fn]])
    world = draw(st.integers(1, 16))
    ngroups = draw(st.integers(1, min(6, world)))
    ranks = draw(st.permutations(list(range(world))))
    used = draw(st.integers(ngroups, world))
    ranks = list(ranks[:used])
    # cut points -> groups of unequal sizes
    cuts = sorted(draw(st.lists(st.integers(1, used - 1), min_size=ngroups - 1, max_size=ngroups - 1, unique=True))) if used > 1 and ngroups > 1 else []
    groups, prev = [], 0
    for c in cuts + [used]:
        groups.append(ranks[prev:c])
        prev = c
    groups = [g for g in groups if g]
    colocate = draw(st.booleans())
    return {'kind': 'gen', 'work': work, 'groups': groups, 'world': world, 'colocate': colocate,
            'cost_type': draw(st.sampled_from(['python', 'python', 'python', 'numpy', 'torch']))}


def _to_work(pairs):
    return {n: {f: c for f, c in fs} for n, fs in pairs}


class C17(Prop):
    id = 'C17'
    title = 'Greedy work assignment is complete, group-confined, balanced and deterministic'
    rule = ('Hypothesis draws cost dictionaries (0-12 layers x 1-3 factors in drawn insertion order; costs from {0, small ints, '
            'cubes, dyadic floats 2^-10..2^20, very wide ranges such as 50304^3 next to 7, a per-case tie pool}) and a partition of a drawn subset of a world of 1-16 ranks '
            'into 1-6 groups of unequal sizes with shuffled rank order, colocate on/off. Oracle = validity by replay with '
            'backtracking over ties + explicit balance bound + purity (called twice, arguments deep-compared). Exhaustive small '
            'scope: <=2 (quick) / <=3 (thorough) layers x 2 factors with costs in {0,1,2,3}, every partition of every non-empty '
            'subset of worlds <= 4 (quick: <=3), colocate on/off (one enumerated case = one cost dictionary against all partitions; '
            'inner placements counted in inner_evaluations). Plus one cross-process case: 40 seeded inputs evaluated in 3 '
            'subprocesses with different PYTHONHASHSEED must give identical results. Non-trivial (generated): >=2 groups, >=3 layers '
            'and a tie among layer totals or factor costs; (small scope): >= 2 layers with a tie.')
    assumptions = ['costs are non-negative and exactly summable (ints, dyadic floats); a fifth of the drawn dictionaries are handed over as numpy or torch scalars - if the implementation accepts them (no TypeError) the placement must be valid for their values',
                   'worker groups are disjoint, non-empty lists of ranks < world_size']
    examples = {'quick': 1500, 'thorough': 6000}
    shards = {'quick': 8, 'thorough': 16}
    enum_shards = {'quick': 4, 'thorough': 16}
    required_labels = {'quick': ['nontrivial=True', 'kind=gen', 'kind=small', 'kind=hashseed'],
                       'thorough': ['nontrivial=True', 'kind=gen', 'kind=small', 'kind=hashseed']}

    fuzz = {'thorough': {'runs': 30000, 'max_time': 60, 'procs': 4}}

    def strategy(self, tier):
        return _case()

    def enumerate(self, tier, shard, nshards):
        maxl = 2 if tier == 'quick' else 3
        maxw = 4
        i = 0
        if shard == 0:
            yield {'kind': 'hashseed', 'n': 40, 'seed': 12345}
        for nl in range(1, maxl + 1):
            for costs in itertools.product(range(4), repeat=2 * nl):
                if i % nshards == shard:
                    yield {'kind': 'small', 'costs': list(costs), 'maxw': maxw}
                i += 1

    def summarize(self, infos):
        return {'inner_evaluations': sum(i.get('inner', 0) for i in infos)}

    # ------------------------------------------------------------------
    def run_case(self, case):
        if case['kind'] == 'gen':
            return self._one(_to_work(case['work']), case['groups'], case['world'], case['colocate'], 'gen', case.get('cost_type', 'python'))
        if case['kind'] == 'small':
            return self._small(case)
        return self._hashseed(case)

    def _one(self, work, groups, world, colocate, kind, cost_type='python'):
        from kfac.assignment import KAISAAssignment
        plain = work
        if cost_type != 'python':
            # the same numbers handed over as numpy / torch scalars (what a caller computing costs from tensor shapes or timings
            # may pass); if such numbers are accepted the result must be a valid greedy placement for their values
            if cost_type == 'numpy':
                import numpy as np
                conv = lambda c: np.float64(c) if isinstance(c, float) else np.int64(c)
            else:
                import torch
                conv = lambda c: torch.tensor(float(c), dtype=torch.float64)
            work = {n: {f: conv(c) for f, c in fs.items()} for n, fs in plain.items()}
        w0, g0 = copy.deepcopy(work), copy.deepcopy(groups)
        try:
            res = KAISAAssignment.greedy_assignment(work, groups, world, colocate)
            res2 = KAISAAssignment.greedy_assignment(work, groups, world, colocate)
        except TypeError as e:
            if cost_type != 'python':
                return passed(False, {'kind': kind, 'nontrivial': False, 'cost_type': cost_type, 'unsupported_cost_type': True})
            return violation(f'greedy_assignment raised {type(e).__name__}: {e} on work={work} groups={groups} world={world} colocate={colocate}', 'exception')
        except Exception as e:  # valid input by construction: must not fail
            return violation(f'greedy_assignment raised {type(e).__name__}: {e} on work={work} groups={groups} world={world} colocate={colocate}', 'exception')
        if work != w0 or groups != g0 or list(work) != list(w0) or any(list(work[k]) != list(w0[k]) for k in work):
            return violation('greedy_assignment mutated its arguments', 'mutated-args')
        if res != res2:
            return violation(f'two calls with equal arguments differ: {res} vs {res2}', 'impure')
        work = plain
        bad = check_assignment(work, groups, world, colocate, res)
        if bad:
            return violation(f'{bad[1]} :: work={work} (costs passed as {cost_type} numbers) groups={groups} world={world} colocate={colocate} result={res}', bad[0])
        totals = [sum(f.values()) for f in work.values()]
        fcosts = [c for f in work.values() for c in f.values()]
        tie = len(set(totals)) < len(totals) or len(set(fcosts)) < len(fcosts)
        nt = len(groups) >= 2 and len(work) >= 3 and tie
        return passed(nt, {'kind': kind, 'nontrivial': nt, 'colocate': colocate, 'ngroups': len(groups),
                           'nlayers': min(len(work), 12), 'cost_type': cost_type})

    def _small(self, case):
        costs = case['costs']
        nl = len(costs) // 2
        work = {f'l{i}': {'A': costs[2 * i], 'G': costs[2 * i + 1]} for i in range(nl)}
        inner = 0
        for world in range(1, case['maxw'] + 1):
            ranks = list(range(world))
            for k in range(1, world + 1):
                for subset in itertools.combinations(ranks, k):
                    for part in set_partitions(list(subset)):
                        for colocate in (False, True):
                            out = self._one(work, part, world, colocate, 'small')
                            inner += 1
                            if not out.ok:
                                return out
        totals = [sum(f.values()) for f in work.values()]
        nt = nl >= 2 and len(set(totals)) < len(totals)
        return passed(nt, {'kind': 'small', 'nontrivial': nt}, {'inner': inner})

    def _hashseed(self, case):
        prog = (
            "import sys, json, random\n"
            f"sys.path.insert(0, {REPO!r})\n"
            "from kfac.assignment import KAISAAssignment\n"
            "rng = random.Random(%d)\n"
            "out = []\n"
            "for i in range(%d):\n"
            "    nl = rng.randint(1, 10)\n"
            "    tie = rng.choice([1, 2, 8, 27])\n"
            "    work = {'layer%%d_%%s' %% (j, rng.choice('abcxyz')): {f: rng.choice([tie, tie, 0, 1, 64, 2.5]) for f in rng.sample(['A', 'G', 'B'], rng.randint(1, 3))} for j in range(nl)}\n"
            "    world = rng.randint(1, 12)\n"
            "    ranks = list(range(world)); rng.shuffle(ranks)\n"
            "    ng = rng.randint(1, min(4, world))\n"
            "    groups = [ranks[g::ng] for g in range(ng)]\n"
            "    col = rng.random() < 0.5\n"
            "    res = KAISAAssignment.greedy_assignment(work, groups, world, col)\n"
            "    out.append([[l, sorted(res[l].items())] for l in res])\n"
            "print(json.dumps(out))\n"
        ) % (case['seed'], case['n'])
        outs = []
        for hs in ('0', '1', '4242'):
            env = dict(os.environ, PYTHONHASHSEED=hs, PYTHONWARNINGS='ignore')
            r = subprocess.run([sys.executable, '-c', prog], env=env, capture_output=True, text=True, timeout=300)
            if r.returncode != 0:
                raise RuntimeError('hashseed subprocess failed: ' + r.stderr[-2000:])
            outs.append(r.stdout.strip().splitlines()[-1])
        if len(set(outs)) != 1:
            a, b = json.loads(outs[0]), None
            for o in outs[1:]:
                if o != outs[0]:
                    b = json.loads(o)
            idx = next(i for i in range(len(a)) if a[i] != b[i])
            return violation(f'greedy_assignment result depends on PYTHONHASHSEED: input #{idx} gives {a[idx]} vs {b[idx]}', 'hashseed-dependent')
        return passed(True, {'kind': 'hashseed', 'nontrivial': True}, {'inner': 3 * case['n']})


PROP = C17()
