"""C01 - the preconditioned gradient solves the damped Kronecker-factored system."""

from __future__ import annotations

import warnings

from hypothesis import strategies as st

from vkit import gens
from vkit.runner import Prop, passed, violation


@st.composite
def _case(draw):
    spec = draw(gens.model_spec(max_layers=3, max_dim=7, max_out=6))
    method = draw(st.sampled_from(['eigen', 'eigen', 'inverse']))
    prediv = draw(st.booleans()) if method == 'eigen' else False
    colocate = True if (method == 'eigen' and prediv) else draw(st.booleans())
    pdtype = draw(st.sampled_from(['float32', 'float32', 'float64']))
    return {
        'spec': spec, 'method': method, 'prediv': prediv, 'colocate': colocate,
        'param_dtype': pdtype,
        'factor_dtype': draw(st.sampled_from([None, None, 'float32', 'float64', 'bfloat16'])),
        'inv_dtype': draw(st.sampled_from(['float32', 'float32', 'float64'])),
        'damping': draw(gens.damping_strategy()),
        'decay': draw(gens.decay_strategy()),
        'clip': draw(st.sampled_from(['off', 'off', 'active'])),
        'lr': draw(st.sampled_from([0.1, 1.0, 0.01])),
        'steps': draw(st.integers(1, 4)),
        # factors and second-order data refreshed every `interval` steps (both intervals equal, so that on the steps in between the
        # stored factors are still the ones the cached decompositions / inverses were computed from)
        'interval': draw(st.sampled_from([1, 1, 1, 2, 2, 3])),
        # damping given as a schedule (callable of the step; values by step index modulo the length) instead of the constant above
        'damping_schedule': draw(st.one_of(st.none(), st.none(), st.lists(st.sampled_from([0.003, 0.03, 0.1, 0.3, 1.0]), min_size=2, max_size=4))),
        # before this step (if < steps) the state is saved and loaded into a fresh preconditioner on a fresh copy of the model
        'reload_at': draw(st.sampled_from([None, None, None, 1, 2, 3])),
        # learning rate given as a schedule (callable of the step) instead of the constant: nu of step t uses lr(t)
        'lr_schedule': draw(st.one_of(st.none(), st.none(), st.lists(st.sampled_from([0.01, 0.1, 0.5, 1.0, 2.0]), min_size=2, max_size=4))),
        'N': draw(st.integers(1, 6)),
        'style': draw(gens.style_strategy()),
        'data_seed': draw(st.integers(0, 10 ** 6)),
    }


@st.composite
def _lowprec_case(draw):
    """Factors kept in bfloat16 become measurably indefinite once the identity initialisation has decayed (small decay, several
    steps, rank-deficient batches); the eigen method must then treat them as PSD whatever the inverse dtype is."""
    c = draw(_case())
    c.update(method='eigen', prediv=draw(st.booleans()), colocate=True, factor_dtype='bfloat16',
             inv_dtype=draw(st.sampled_from(['float64', 'float64', 'float32'])),
             decay=draw(st.sampled_from([0.1, 0.3, 0.05, 0.5])), steps=draw(st.integers(3, 8)), N=draw(st.integers(1, 3)), lowprec=True)
    return c


@st.composite
def _dist_case(draw):
    """The same statement on every rank of a distributed run: the gradient a rank ends up with (computed there or received) is nu*V."""
    from props.c02 import placement
    W = draw(st.sampled_from([2, 2, 3, 4]))
    method = draw(st.sampled_from(['eigen', 'eigen', 'inverse']))
    prediv = draw(st.booleans()) if method == 'eigen' else False
    case = {'dist': True, 'W': W, 'method': method, 'prediv': prediv,
            'spec': draw(gens.model_spec(max_layers=3, max_dim=6, max_out=5)), 'N': draw(st.integers(1, 3)),
            'style': draw(gens.style_strategy()), 'in_hook': draw(st.booleans()), 'accum': 1, 'update': 'noise',
            'zero_to_none': draw(st.booleans()),
            'hp': {'factor_update_steps': 1, 'inv_update_steps': 1, 'damping': draw(st.sampled_from([0.003, 0.03, 0.3])),
                   'factor_decay': draw(st.sampled_from([0.95, 0.5])), 'kl_clip': draw(st.sampled_from([1e30, 1e-3, 1e-5])), 'lr': 0.1},
            'steps': draw(st.integers(1, 3)), 'data_seed': draw(st.integers(0, 9999)),
            'schedule': draw(st.lists(st.integers(0, 63), max_size=100)), 'flip': draw(st.booleans())}
    case.update(draw(placement(W, method, prediv)))
    return case


class C01(Prop):
    id = 'C01'
    title = 'Preconditioned gradient solves the damped Kronecker-factored system'
    rule = ('Hypothesis draws a runnable model of 1-3 supported layers (linear incl. N-d inputs, conv2d with rectangular kernels/strides/'
            'paddings, bias on/off, subclasses), batch 1-6, data style, damping log-uniform in [1e-3,10], decay in (0,1], method x '
            'pre-divided eigenvalues x colocate, parameter dtype float32/float64, factor dtype None/float32/float64/bfloat16, inverse dtype '
            'float32/float64, 1-4 steps with SGD weight updates in between, factors and second-order data refreshed every 1-3 steps (cached decompositions are reused in between), damping constant or a schedule, optionally a checkpoint round trip into a fresh preconditioner before step 1-3, clipping off (1e30) or active; one case in five is a low-precision long run (eigen method, bfloat16 factors, decay <= 0.5, 3-8 steps, batch 1-3, inverse dtype float64/float32) in which the stored factors become measurably indefinite. One case in six runs W in {2,3,4} simulated ranks under a drawn placement and applies the same oracle on EVERY rank to the gradient it ends up with (computed there or received), from the averaged gradient and the factors that rank holds. Oracle: D recorded on a twin model '
            'without K-FAC, A and G read from state_dict() after the step, V_ref from a float64 dense solve of the system named in the '
            'statement (Kronecker form for eigen), nu_ref from the clip formula; ||grad - nu_ref V_ref||_F <= 16 sqrt(n) eps kappa ||V_ref||_F, and '
            'the residual of the defining system is within the same bound. Non-trivial: tolerance <= 5e-2 and V_ref differs by more than '
            '10x tolerance from the float64 wrong answers {damping x 4, damping / 4, the other method\'s system}. '
            'distinct_nontrivial counts distinct cases with >= 1 non-trivial (layer, step).')
    assumptions = ['factor/inverse update intervals are 1 (stale second-order data is C05\'s subject)',
                   'tolerance: c=16 sqrt(n) eps kappa with eps the coarsest of float32 (eigh/inv are float32), inv dtype, gradient dtype and, for the inverse method, the factor dtype (damping is added in it); '
                   'kappa from the float64 system (product form for eigen, sum of the two factor condition numbers for inverse, times rho = |Gd^-1| |D| |Ad^-1| / |V| >= 1 because the inverses are formed explicitly)']
    examples = {'quick': 500, 'thorough': 2000}
    shards = {'quick': 8, 'thorough': 16}
    required_labels = {'quick': ['nontrivial=True', 'method=eigen', 'method=inverse', 'has_conv=True', 'clip=active', 'lowprec_long_run=True', 'reused_second_order=True', 'dist=True', 'reloaded=True'],
                       'thorough': ['nontrivial=True', 'method=eigen', 'method=inverse', 'has_conv=True', 'clip=active', 'lowprec_long_run=True', 'reused_second_order=True', 'dist=True', 'reloaded=True']}

    def strategy(self, tier):
        return st.one_of(_case(), _case(), _case(), _case(), _lowprec_case(), _dist_case())

    def summarize(self, infos):
        tols = sorted(i['tol'] for i in infos if 'tol' in i)
        errs = sorted(i['err_over_tol'] for i in infos if 'err_over_tol' in i)
        if not tols:
            return {}
        q = lambda v, p: v[min(len(v) - 1, int(p * len(v)))]
        return {'tolerance_quantiles': {'p50': q(tols, .5), 'p90': q(tols, .9), 'max': tols[-1]},
                'error_over_tolerance_quantiles': {'p50': q(errs, .5), 'p99': q(errs, .99), 'max': errs[-1]}}

    def _dist(self, c):
        import torch
        from vkit import kaisa, kmodel, refkfac
        W = c['W']
        labels = {'dist': True, 'W': W, 'method': c['method'], 'prediv': c['prediv'],
                  'strategy': 'COMM' if c['k'] == W else 'MEM' if c['k'] == 1 else 'HYBRID', 'clip': 'off' if c['hp']['kl_clip'] >= 1e29 else 'active'}
        program = [{'op': 'train', 'seed': c['data_seed'] + t} for t in range(c['steps'])]
        res = kaisa.run_sim(c, program, c['schedule'], c['flip'], observe=('grads_before', 'factors'))
        if res.timed_out:
            raise RuntimeError('simulation timed out (harness)')
        if not res.ok:
            return violation(f'protocol violation {res.violations[0]}', 'protocol:' + res.violations[0].kind, labels=labels)
        model = kmodel.build_model(c['spec'])
        mods = dict(model.named_modules())
        names = kmodel.kfac_layer_names(model)
        eps = refkfac.EPS[torch.float32]
        lam, worst, nontrivial = c['hp']['damping'], 0.0, False
        for rank in range(W):
            for t, rec in enumerate([r for r in res.results[rank] if r['op'] == 'train']):
                D = {n: kmodel.combined_grad(mods[n], rec['before'], n) for n in names}
                sols, pairs, kap = {}, [], {}
                for n in names:
                    A, G = rec['factors'][n]['A'].to(torch.float64), rec['factors'][n]['G'].to(torch.float64)
                    if c['method'] == 'inverse':
                        V, _ = refkfac.solve_inverse(A, G, lam, D[n])
                        eye = lambda M: torch.eye(M.shape[0], dtype=torch.float64)
                        kap[n] = torch.linalg.cond(A + lam * eye(A)).item() + torch.linalg.cond(G + lam * eye(G)).item()
                    else:
                        V, kap[n] = refkfac.solve_eigen(A, G, lam, D[n])
                    sols[n] = V
                    pairs.append((V, D[n]))
                nu, _vg = refkfac.clip_scale(c['hp']['kl_clip'], c['hp']['lr'], pairs)
                tol_all = max(refkfac.tolerance(kap[n], D[n].numel(), eps) for n in names)
                for n in names:
                    tol = refkfac.tolerance(kap[n], D[n].numel(), eps) + (tol_all if nu < 1.0 else 0.0)
                    if tol > 5e-2:
                        continue
                    got = kmodel.combined_grad(mods[n], rec['after'], n)
                    ref = nu * sols[n]
                    rn, err = ref.norm().item(), (got - ref).norm().item()
                    if rn > 0:
                        nontrivial = True
                        worst = max(worst, err / (tol * rn + 1e-30))
                    if err > tol * rn + 1e-30:
                        return violation(f'rank {rank} step {t} layer {n} (W={W}, k={c["k"]}, method={c["method"]}, prediv={c["prediv"]}, nu={nu:.4g}): '
                                         f'||grad - nu*V_ref|| / ||nu*V_ref|| = {err / max(rn, 1e-300):.3e} > tolerance {tol:.3e}', 'solve-mismatch', labels=labels)
        labels['nontrivial'] = nontrivial
        return passed(nontrivial, labels, {'err_over_tol': worst})

    def run_case(self, c):
        if c.get('dist'):
            return self._dist(c)
        import torch
        from kfac.preconditioner import KFACPreconditioner
        from vkit import kmodel, refkfac

        pd = kmodel.dt(c['param_dtype'])
        model = kmodel.build_model(c['spec'], pd)
        twin = kmodel.build_model(c['spec'], pd)
        names = kmodel.kfac_layer_names(model)
        mods = dict(model.named_modules())
        tmods = dict(twin.named_modules())
        kl = 1e30 if c['clip'] == 'off' else None
        # an active clip value is chosen after the first unclipped solve (needs the magnitude of <V,D>)
        sched = c.get('damping_schedule')
        lam_of = (lambda step: sched[step % len(sched)]) if sched else (lambda step: c['damping'])
        interval = c.get('interval', 1)
        lrs = c.get('lr_schedule')
        lr_of = (lambda step: lrs[step % len(lrs)]) if lrs else (lambda step: c['lr'])
        kwargs = dict(damping=(lam_of if sched else c['damping']), factor_decay=c['decay'], lr=(lr_of if lrs else c['lr']), compute_method=c['method'],
                      factor_update_steps=interval, inv_update_steps=interval,
                      compute_eigenvalue_outer_product=c['prediv'], colocate_factors=c['colocate'],
                      factor_dtype=kmodel.dt(c['factor_dtype']), inv_dtype=kmodel.dt(c['inv_dtype']))
        klbox = [1e30]
        with warnings.catch_warnings():
            warnings.simplefilter('ignore')
            pre = KFACPreconditioner(model, kl_clip=(lambda s: klbox[0]), **kwargs)
        eps = max(refkfac.EPS[torch.float32], refkfac.EPS[kmodel.dt(c['inv_dtype'])], refkfac.EPS[pd])
        if c['method'] == 'inverse':
            # the inverse method adds the damping to the factor in the factor's own dtype before widening to float32
            eps = max(eps, refkfac.EPS[kmodel.dt(c['factor_dtype']) or pd])
        labels = {'method': c['method'], 'prediv': c['prediv'], 'clip': c['clip'], 'param_dtype': c['param_dtype'],
                  'factor_dtype': str(c['factor_dtype']), 'inv_dtype': c['inv_dtype'], 'steps': c['steps'],
                  'has_conv': any(L['t'] == 'conv' for L in c['spec']['layers']), 'style': c['style'], 'lowprec_long_run': bool(c.get('lowprec')),
                  'reused_second_order': c.get('interval', 1) > 1 and c['steps'] > 1}
        nontrivial = False
        worst = 0.0
        worst_tol = 0.0
        baked_at = 0
        for t in range(c['steps']):
            if c.get('reload_at') == t and t > 0:
                # checkpoint round trip into a fresh preconditioner: second-order data is recomputed from the restored factors with the
                # damping of the restored step
                import pickle
                blob = pickle.dumps(pre.state_dict())
                new_model = kmodel.build_model(c['spec'], pd)
                kmodel.copy_params(model, new_model)
                with warnings.catch_warnings():
                    warnings.simplefilter('ignore')
                    pre = KFACPreconditioner(new_model, kl_clip=(lambda s: klbox[0]), **kwargs)
                    pre.load_state_dict(pickle.loads(blob), compute_inverses=True)
                model = new_model
                mods = dict(model.named_modules())
                baked_at = t
                labels['reloaded'] = True
            if t % interval == 0:
                baked_at = t
            # the damping in force: the current one where it is applied at use (eigen without pre-division), otherwise the one of the step
            # at which the second-order data was last computed
            lam = lam_of(t) if (c['method'] == 'eigen' and not c['prediv']) else lam_of(baked_at)
            x = kmodel.make_input(c['spec'], c['N'], c['data_seed'] + t, c['style'], pd)
            for m in (model, twin):
                m.zero_grad(set_to_none=True)
            y = model(x)
            kmodel.loss_of(y, c['data_seed'] + 31 * t, c['N']).backward()
            y2 = twin(x)
            kmodel.loss_of(y2, c['data_seed'] + 31 * t, c['N']).backward()
            # D is the gradient the model itself holds before the step (a copy taken now).  The twin without K-FAC gives the same values
            # up to kernel selection (torch's hook plumbing can re-stride size-1 dimensions, see C10), which is not this property's subject.
            tg = kmodel.grads_of(model)
            D = {n: kmodel.combined_grad(mods[n], tg, n) for n in names}
            if c['clip'] == 'active':
                # choose kl so that nu is about 0.3-0.7: the factors are already updated (hooks), so <V,D> can be predicted
                sd0 = pre.state_dict()['layers']
                pr = []
                for n in names:
                    A0, G0 = sd0[n]['A'].to(torch.float64), sd0[n]['G'].to(torch.float64)
                    V0 = (refkfac.solve_inverse if c['method'] == 'inverse' else refkfac.solve_eigen)(A0, G0, lam, D[n])[0]
                    pr.append((V0, D[n]))
                vg0 = abs(sum((V * Dd).sum().item() for V, Dd in pr)) * lr_of(t) ** 2
                klbox[0] = vg0 * [0.1, 0.25, 0.5][t % 3] if vg0 > 0 else 1e-3
            try:
                pre.step()
            except torch.linalg.LinAlgError as e:
                if c['method'] == 'inverse' and c['factor_dtype'] == 'bfloat16':
                    # damping added in bfloat16 can be absorbed by rounding: an exactly singular matrix is then possible; the
                    # tolerance of such a case is far above 5e-2 anyway (trivial)
                    labels['linalg_error'] = True
                    return passed(False, labels)
                return violation(f'step() raised {type(e).__name__}: {e}', 'exception', labels=labels)
            except Exception as e:
                return violation(f'step() raised {type(e).__name__}: {e}', 'exception', labels=labels)
            sd = pre.state_dict()['layers']
            after = kmodel.grads_of(model)
            sols, pairs, meta = {}, [], {}
            for n in names:
                A = sd[n]['A'].to(torch.float64)
                G = sd[n]['G'].to(torch.float64)
                if c['method'] == 'inverse':
                    V, _ = refkfac.solve_inverse(A, G, lam, D[n])
                    ka = torch.linalg.cond(A + lam * torch.eye(A.shape[0], dtype=torch.float64)).item()
                    kg = torch.linalg.cond(G + lam * torch.eye(G.shape[0], dtype=torch.float64)).item()
                    # explicit inverses: dV ~ E_g D Ad^-1 + Gd^-1 D E_a with |E_x| <= eps kappa_x |Xd^-1|, i.e. an error relative to
                    # |Gd^-1| |D| |Ad^-1|, which exceeds |V| by the factor rho when D is aligned with the large eigenvalues (one-sample
                    # batches: D = g a^T is the top eigenvector pair of both factors)
                    Ai = torch.linalg.inv(A + lam * torch.eye(A.shape[0], dtype=torch.float64))
                    Gi = torch.linalg.inv(G + lam * torch.eye(G.shape[0], dtype=torch.float64))
                    rho = (torch.linalg.matrix_norm(Gi, 2) * D[n].to(torch.float64).norm() * torch.linalg.matrix_norm(Ai, 2)).item() / max(V.norm().item(), 1e-300)
                    kappa = (ka + kg) * max(1.0, min(rho, ka * kg))
                else:
                    V, kappa = refkfac.solve_eigen(A, G, lam, D[n])
                sols[n] = V
                pairs.append((V, D[n]))
                meta[n] = (A, G, kappa)
            nu, vg = refkfac.clip_scale(klbox[0], lr_of(t), pairs)
            tol_all = max(refkfac.tolerance(meta[n][2], D[n].numel(), eps) for n in names)
            for n in names:
                A, G, kappa = meta[n]
                got = kmodel.combined_grad(mods[n], after, n)
                ref = nu * sols[n]
                tol = refkfac.tolerance(kappa, D[n].numel(), eps)
                if nu < 1.0:
                    tol = tol + tol_all    # nu depends on every layer's solve
                rn = ref.norm().item()
                err = (got - ref).norm().item()
                bound = tol * rn + 1e-30
                ratio = err / bound if rn > 0 else (0.0 if err == 0 else float('inf'))
                info_layer = f'layer {n} step {t} method={c["method"]} prediv={c["prediv"]} damping={lam} kappa={kappa:.3g} nu={nu:.4g}'
                if tol <= 5e-2:
                    worst = max(worst, ratio)
                    worst_tol = max(worst_tol, tol)
                    if err > bound:
                        return violation(f'{info_layer}: ||grad - nu*V_ref||_F / ||nu*V_ref||_F = {err / max(rn, 1e-300):.3e} > tolerance {tol:.3e}',
                                         'solve-mismatch', labels=labels)
                    # residual of the defining system (independent formulation)
                    if nu > 0 and rn > 0:
                        Vgot = got / nu
                        if c['method'] == 'inverse':
                            R = refkfac.residual_inverse(A, G, lam, Vgot, D[n])
                        else:
                            R = refkfac.residual_eigen(A, G, lam, Vgot, D[n])
                        if R.norm().item() > tol * max(D[n].norm().item(), 1e-300) * 4 + 1e-30:
                            return violation(f'{info_layer}: residual of the damped system {R.norm().item():.3e} exceeds '
                                             f'{tol * 4:.3e} * ||D||', 'residual', labels=labels)
                    # discrimination against plausible wrong answers
                    if rn > 0:
                        wrong = []
                        for l2 in (lam * 4, lam / 4):
                            wrong.append((refkfac.solve_inverse if c['method'] == 'inverse' else refkfac.solve_eigen)(A, G, l2, D[n])[0])
                        wrong.append((refkfac.solve_eigen if c['method'] == 'inverse' else refkfac.solve_inverse)(A, G, lam, D[n])[0])
                        if all((nu * w - ref).norm().item() > 10 * bound for w in wrong):
                            nontrivial = True
            # identical SGD update on both models so that later steps see different data/factors
            with torch.no_grad():
                for (n1, p1), (n2, p2) in zip(model.named_parameters(), twin.named_parameters()):
                    if p1.grad is not None and torch.isfinite(p1.grad).all():
                        # bounded update: keeps weights and data O(1) even when clipping is off
                        p1.add_(p1.grad / max(1.0, p1.grad.abs().max().item()), alpha=-0.05)
                        p2.copy_(p1)
        labels['nontrivial'] = nontrivial
        return passed(nontrivial, labels, {'tol': worst_tol, 'err_over_tol': worst})


PROP = C01()
