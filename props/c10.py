"""C10 - a step touches nothing but the gradients of registered layers; eval passes and registration are transparent."""

from __future__ import annotations

import re
import warnings

from hypothesis import strategies as st

from vkit import gens
from vkit.runner import Prop, passed, violation


@st.composite
def _case(draw):
    spec = draw(gens.model_spec(max_layers=4, max_dim=6, max_out=5, extras=True, nd_linear=True))
    layers = []
    # decorate: residual blocks after square-able points, frozen flags
    feat = None
    for L in spec['layers']:
        L = dict(L)
        if L['t'] in ('linear', 'conv') and draw(st.integers(0, 3)) == 0:
            L['frozen'] = draw(st.sampled_from(['all', 'weight', 'bias']))
        if L['t'] == 'linear' and L.get('sub') and draw(st.booleans()):
            L['sub'] = 'gain'          # a registered Linear subclass with an extra parameter: only its weight and bias belong to K-FAC
        layers.append(L)
        if L['t'] == 'linear' and draw(st.integers(0, 2)) == 0:
            layers.append({'t': 'res_linear', 'n': L['out'], 'bias': draw(st.booleans())})
        if L['t'] == 'conv' and draw(st.integers(0, 3)) == 0:
            layers.append({'t': 'res_conv', 'n': L['cout'], 'bias': draw(st.booleans())})
    spec = dict(spec, layers=layers)
    pats = draw(st.lists(st.sampled_from(['^0$', '^1$', r'^2', 'Conv2d', 'Linear$', 'MyLinear', r'\.fn$', '^3', 'nomatch', 'fn']), max_size=2))
    cand = [i for i, L in enumerate(layers) if L['t'] in ('linear', 'conv')]
    if cand and draw(st.integers(0, 3)) == 0:
        # a supported module that is reachable under two names (shared instance): it is judged by the first name named_modules()
        # reports; skip patterns are chosen to hit one of its two names and not the other
        of = draw(st.sampled_from(cand))
        first = draw(st.booleans())
        spec['alias'] = {'of': of, 'first': first}
        n1, n2 = ('0.m', str(of + 1)) if first else (str(of), f'{len(layers)}.m')
        pats = draw(st.sampled_from([[f'^{re.escape(n1)}$'], [f'^{re.escape(n2)}$'], [r'\.m$'], pats, pats + [f'^{re.escape(n2)}$']]))
    ops = []
    nsteps = draw(st.integers(1, 3))
    for i in range(nsteps):
        if draw(st.integers(0, 2)) == 0:
            ops.append({'op': 'eval', 'seed': draw(st.integers(0, 999))})
        op = {'op': 'train', 'seed': draw(st.integers(0, 999))}
        if i > 0 and draw(st.integers(0, 3)) == 0:
            # fine-tuning style: some registered layers are put in eval mode for this whole iteration (only after a first ordinary
            # iteration, so that they already have factors); their K-FAC state must not change
            op['eval_modules'] = draw(st.lists(st.integers(0, 5), min_size=1, max_size=3))
        if draw(st.integers(0, 3)) == 0:
            # an eval-mode forward + input-gradient (saliency / validation) pass in the MIDDLE of the iteration: after micro-batch
            # number eval_mid (taken modulo accumulation_steps), i.e. between micro-batches or between the last backward and step()
            op['eval_mid'] = draw(st.integers(0, 2))
        ops.append(op)
    if draw(st.booleans()):
        ops.append({'op': 'eval', 'seed': draw(st.integers(0, 999))})
    method = draw(st.sampled_from(['eigen', 'eigen', 'inverse']))
    return {'spec': spec, 'skip_layers': pats, 'method': method, 'prediv': draw(st.booleans()) if method == 'eigen' else False,
            'param_dtype': draw(st.sampled_from(['float32', 'float32', 'float64', 'bfloat16'])),
            'factor_dtype': draw(st.sampled_from([None, None, 'float32', 'float64', 'bfloat16'])),
            'inv_dtype': draw(st.sampled_from(['float32', 'float32', 'float64'])),
            'loss_scale': draw(st.sampled_from([None, None, 64.0, 1024.0])), 'in_hook': draw(st.booleans()),
            'kl_clip': draw(st.sampled_from([1e-3, 1e30])),
            'N': draw(st.integers(2, 4)), 'style': draw(gens.style_strategy()),
            'mem_format': draw(st.sampled_from(['contiguous', 'contiguous', 'channels_last'])),
            'accum': draw(st.sampled_from([1, 1, 2, 3])), 'autocast': draw(st.sampled_from([False, False, False, True])),
            'model_cl': draw(st.sampled_from([False, False, False, True])),
            # "main grads": gradients kept in a wider dtype than the parameters (param.grad_dtype = None), promoted after backward
            'wide_grads': draw(st.sampled_from([False, False, False, True])), 'program': ops}


def _mid_eval(models, case, seed, pd):
    """Eval-mode forward and gradient w.r.t. the INPUT only (parameter .grad untouched) on each model; back to train mode."""
    import torch
    from vkit import kmodel
    for m in models:
        modes = [(sub, sub.training) for sub in m.modules()]
        m.eval()
        x = kmodel.make_input(case['spec'], case['N'], seed + 31337, case['style'], pd).clone().requires_grad_(True)
        loss = kmodel.loss_of(m(x), seed + 5, case['N'])
        torch.autograd.grad(loss, x, allow_unused=True)
        for sub, was in modes:           # every module back to the mode it was in (some may be in eval mode on purpose)
            sub.training = was


def _kfac_only_run(case, program, kw, with_mid_eval=True):
    """Model + K-FAC only (no twin, no checks): post-step gradients of every train op and the final factors."""
    import torch
    from kfac.preconditioner import KFACPreconditioner
    from vkit import kmodel
    pd = kmodel.dt(case['param_dtype'])
    model = kmodel.build_model(case['spec'], pd)
    if case.get('model_cl'):
        model = model.to(memory_format=torch.channels_last)
    with warnings.catch_warnings():
        warnings.simplefilter('ignore')
        pre = KFACPreconditioner(model, **kw)
    reg_names = sorted(pre.state_dict()['layers'])
    wide = None
    if case.get('wide_grads') and hasattr(next(iter(model.parameters()), None), 'grad_dtype'):
        wide = {torch.float32: torch.float64, torch.bfloat16: torch.float32}.get(pd)
        if wide is not None:
            for p_ in model.parameters():
                p_.grad_dtype = None
    scale = case['loss_scale'] or 1.0
    accum = case.get('accum', 1)
    out = []
    for op in program:
        train = op['op'] == 'train'
        model.train(train)
        if train and op.get('eval_modules') and reg_names:
            mods_ = dict(model.named_modules())
            for idx in op['eval_modules']:
                mods_[reg_names[idx % len(reg_names)]].eval()
        model.zero_grad(set_to_none=True)
        for micro in range(accum if train else 1):
            x = kmodel.make_input(case['spec'], case['N'], op['seed'] + 7919 * micro, case['style'], pd)
            if case.get('mem_format') == 'channels_last':
                x = x.contiguous(memory_format=torch.channels_last) if x.dim() == 4 else x.transpose(-1, -2).contiguous().transpose(-1, -2)
            if case.get('autocast') and case['param_dtype'] == 'float32':
                with torch.autocast('cpu', dtype=torch.bfloat16):
                    loss = kmodel.loss_of(model(x), op['seed'] + 1 + micro, case['N']).float()
            else:
                loss = kmodel.loss_of(model(x), op['seed'] + 1 + micro, case['N'])
            (loss * scale).backward()
            if train and with_mid_eval and op.get('eval_mid') is not None and op['eval_mid'] % accum == micro:
                _mid_eval([model], case, op['seed'], pd)
        if not train:
            continue
        for p in model.parameters():
            if p.grad is not None:
                if wide is not None:
                    p.grad = p.grad.to(wide)
                p.grad /= (scale * accum)
        pre.step()
        repr(pre)
        out.append({n: (None if p.grad is None else p.grad.detach().clone()) for n, p in model.named_parameters()})
        with torch.no_grad():
            for p in model.parameters():
                if p.grad is not None and p.requires_grad and torch.isfinite(p.grad).all():
                    p.add_((p.grad / max(1.0, p.grad.abs().max().item())).to(p.dtype), alpha=-0.05)
    fac = {n: {k: (None if v is None else v.detach().clone()) for k, v in f.items()} for n, f in pre.state_dict()['layers'].items()}
    return out, fac, pre.steps


class C10(Prop):
    id = 'C10'
    title = 'A step touches nothing but the gradients of registered layers'
    rule = ('Hypothesis draws a runnable model of 1-4 supported layers interleaved with unsupported trainable modules (LayerNorm, BatchNorm2d, '
            'an affine module), contiguous or dense non-contiguous batches (channels_last for 4-d inputs, transposed storage otherwise), residual blocks x + fn(x) around registered Linear/Conv2d layers, wholly or partly frozen layers, 0-2 skip '
            'patterns (names and class names), parameter dtype float32/float64/bfloat16, factor and inverse dtypes, both methods, optional loss '
            'scale with grad_scaler, forward passes optionally inside torch.autocast(bfloat16), accumulation_steps 1-3, and a sequence of eval passes and 1-3 train steps, some iterations (not the first) with a subset of the registered layers in eval mode (fine-tuning style; their factors must not change), some with an eval-mode forward + input-gradient pass in the middle of the iteration (between micro-batches or between the last backward and step()). Oracle: around every step() all parameters and buffers '
            'bit-identical, gradients of parameters outside the registered layers bit-identical (None stays None), registered gradients keep '
            'shape, dtype, device, contiguity and are finite; around eval-mode forward/backward passes state_dict(), memory_usage() and steps '
            'unchanged, and the same history without the eval passes gives bit-identical post-step gradients and final factors; outputs and autograd gradients bit-identical to a twin model without K-FAC (fed its own copy of the batch) in every pass, the batch itself left unmodified and no pass failing only with K-FAC registered. Non-trivial: >= 1 registered '
            'and >= 1 unregistered trainable module and one of {skip pattern hit, frozen module, non-float32 parameters, eval pass, residual block}.')
    assumptions = ['the set of registered layers is computed by the harness with the eligibility rule of C16 (leaf Linear/Conv2d, all parameters trainable, no pattern hit)',
                   'bit-identity with the twin relies on deterministic CPU kernels (torch.use_deterministic_algorithms is not required for these ops)']
    examples = {'quick': 400, 'thorough': 1200}
    shards = {'quick': 8, 'thorough': 16}
    required_labels = {'quick': ['nontrivial=True', 'param_dtype=bfloat16', 'param_dtype=float64', 'residual=True', 'frozen=True', 'skipped=True', 'mem_format=channels_last', 'factor_dtype_is_param_dtype=True', 'mid_iteration_eval=True', 'autocast=True', 'mixed_modes=True', 'model_channels_last=True', 'wide_grads=True', 'shared_module=True'],
                       'thorough': ['nontrivial=True', 'param_dtype=bfloat16', 'param_dtype=float64', 'residual=True', 'frozen=True', 'skipped=True', 'mem_format=channels_last', 'factor_dtype_is_param_dtype=True', 'mid_iteration_eval=True', 'autocast=True', 'mixed_modes=True', 'model_channels_last=True', 'wide_grads=True', 'shared_module=True']}

    def strategy(self, tier):
        return _case()

    def run_case(self, case):
        import torch
        from kfac.preconditioner import KFACPreconditioner
        from vkit import kmodel

        pd = kmodel.dt(case['param_dtype'])
        model = kmodel.build_model(case['spec'], pd)
        twin = kmodel.build_model(case['spec'], pd)
        if case.get('model_cl'):
            # the whole model converted to channels_last (conv weights and their gradients in NHWC storage), as recommended with AMP
            model = model.to(memory_format=torch.channels_last)
            twin = twin.to(memory_format=torch.channels_last)
        wide = None
        if case.get('wide_grads') and hasattr(next(iter(model.parameters()), None), 'grad_dtype'):
            wide = {torch.float32: torch.float64, torch.bfloat16: torch.float32}.get(pd)
            if wide is not None:
                for m_ in (model, twin):
                    for p_ in m_.parameters():
                        p_.grad_dtype = None
        pats = case['skip_layers']
        if not any(p.requires_grad for p in model.parameters()):
            return passed(False, {'all_frozen': True})    # nothing trainable: no backward pass possible
        registered = {}
        supported_unreg = 0
        for name, m in model.named_modules():
            if len(list(m.children())) or not isinstance(m, (torch.nn.Linear, torch.nn.Conv2d)):
                continue
            ok = all(p.requires_grad for p in m.parameters()) and not any(re.search(p, name) for p in pats) \
                and not any(re.search(p, type(m).__name__) for p in pats)
            if ok:
                registered[name] = m
            else:
                supported_unreg += 1
        # torch's own hook plumbing is not K-FAC's doing: register_full_backward_hook routes a module's output through an identity
        # autograd function that may re-stride size-1 dimensions, after which a following convolution can pick another kernel
        # (1 ulp differences).  The twin therefore carries inert hooks of the same two kinds on the same modules.
        tmods = dict(twin.named_modules())
        for name in registered:
            tmods[name].register_forward_pre_hook(lambda m, i: None)
            tmods[name].register_full_backward_hook(lambda m, gi, go: None)
        reg_params = {f'{n}.{pn}' if n else pn for n, m in registered.items() for pn, _ in m.named_parameters() if pn in ('weight', 'bias')}
        kw = dict(compute_method=case['method'], compute_eigenvalue_outer_product=case['prediv'], skip_layers=list(pats),
                  factor_dtype=kmodel.dt(case['factor_dtype']), inv_dtype=kmodel.dt(case['inv_dtype']),
                  update_factors_in_hook=case['in_hook'], kl_clip=case['kl_clip'], damping=0.05,
                  accumulation_steps=case.get('accum', 1))
        if case['loss_scale']:
            kw['grad_scaler'] = (lambda s=case['loss_scale']: s)
        with warnings.catch_warnings():
            warnings.simplefilter('ignore')
            pre = KFACPreconditioner(model, **kw)
        got_names = set(pre.state_dict()['layers'])
        if got_names != set(registered):
            return violation(f'registered layers {sorted(got_names)} != eligible {sorted(registered)} (skip={pats})', 'registered-set')
        has_res = any(L['t'].startswith('res_') for L in case['spec']['layers'])
        labels = {'param_dtype': case['param_dtype'], 'method': case['method'], 'residual': has_res,
                  'frozen': any('frozen' in L for L in case['spec']['layers']), 'skipped': supported_unreg > 0 and bool(pats),
                  'loss_scale': case['loss_scale'] is not None, 'n_registered': min(len(registered), 5),
                  'mem_format': case.get('mem_format', 'contiguous'), 'shared_module': case['spec'].get('alias') is not None,
                  'extra_param_layer': any(L.get('sub') == 'gain' for L in case['spec']['layers']),
                  'factor_dtype_is_param_dtype': case['factor_dtype'] == case['param_dtype']}
        scale = case['loss_scale'] or 1.0
        accum = case.get('accum', 1)
        unreg_trainable = any(p.requires_grad for n, p in model.named_parameters() if n not in reg_params)
        saw_eval = saw_mid_eval = saw_mixed = False
        import contextlib
        # mixed precision as documented: forward passes inside torch.autocast (float32 parameters only)
        use_amp = bool(case.get('autocast')) and case['param_dtype'] == 'float32'
        amp = (lambda: torch.autocast('cpu', dtype=torch.bfloat16)) if use_amp else contextlib.nullcontext
        labels['autocast'] = use_amp
        labels['wide_grads'] = wide is not None
        labels['model_channels_last'] = bool(case.get('model_cl')) and any(L['t'] == 'conv' for L in case['spec']['layers'])
        for i, op in enumerate(case['program']):
            train = op['op'] == 'train'
            saw_eval |= not train
            for m in (model, twin):
                m.train(train)
                m.zero_grad(set_to_none=True)
            frozen_now, sd_frozen = [], None
            if train and op.get('eval_modules') and registered:
                reg_names = sorted(registered)
                mm, tm = dict(model.named_modules()), dict(twin.named_modules())
                frozen_now = sorted({reg_names[idx % len(reg_names)] for idx in op['eval_modules']})
                for nm in frozen_now:
                    mm[nm].eval()
                    tm[nm].eval()
                sd_frozen = pre.state_dict()['layers']
                saw_mixed = True
            if not train:
                sd0 = pre.state_dict()
                mem0 = dict(pre.memory_usage())
                st0 = pre.steps
            for micro in range(accum if train else 1):
              x = kmodel.make_input(case['spec'], case['N'], op['seed'] + 7919 * micro, case['style'], pd)
              if case.get('mem_format') == 'channels_last':
                  # a dense, non-contiguous batch: channels_last for 4-d inputs, the last two dimensions stored transposed otherwise
                  x = x.contiguous(memory_format=torch.channels_last) if x.dim() == 4 else x.transpose(-1, -2).contiguous().transpose(-1, -2)
              # the twin gets its own copy of the batch: a hook that writes into its input must not reach the twin through aliasing
              x2, x_orig = x.clone(memory_format=torch.preserve_format), x.clone(memory_format=torch.preserve_format)
              with amp():
                  y2 = twin(x2)
                  l2 = kmodel.loss_of(y2, op['seed'] + 1 + micro, case['N']).float()
              (l2 * scale).backward()
              try:
                  with amp():
                      y = model(x)
                      l1 = kmodel.loss_of(y, op['seed'] + 1 + micro, case['N']).float()
                  (l1 * scale).backward()
              except RuntimeError as e:
                  # the same pass succeeded on the twin without K-FAC
                  return violation(f'op {i} {op}: forward/backward raised with K-FAC registered but not on the twin without it: '
                                   f'{type(e).__name__}: {str(e)[:200]}', 'autograd-changed', labels=labels)
              if not torch.equal(x, x_orig):
                  return violation(f'op {i} {op}: the input batch was modified in place by a pass with K-FAC registered (factor_dtype='
                                   f'{case["factor_dtype"]}, param_dtype={case["param_dtype"]}, mem_format={case.get("mem_format")})', 'input-modified', labels=labels)
              if not torch.equal(y.detach(), y2.detach()) and not (torch.isnan(y).any() and torch.isnan(y2).any()):
                  return violation(f'op {i} {op}: model output differs from the twin without K-FAC', 'output-changed', labels=labels)
              for (n1, p1), (n2, p2) in zip(model.named_parameters(), twin.named_parameters()):
                  a, b = p1.grad, p2.grad
                  if (a is None) != (b is None) or (a is not None and not torch.equal(a, b)):
                      d = (a.float() - b.float()).abs().max().item() if a is not None and b is not None else float('nan')
                      return violation(f'op {i} {op}: autograd gradient of {n1} differs from the twin without K-FAC (max abs diff {d:.3e}; '
                                       f'loss_scale={case["loss_scale"]}, residual={has_res})', 'autograd-changed', labels=labels)
              if train and op.get('eval_mid') is not None and op['eval_mid'] % accum == micro:
                  saw_eval = saw_mid_eval = True
                  sdm0 = pre.state_dict()['layers']
                  _mid_eval([model, twin], case, op['seed'], pd)
                  sdm1 = pre.state_dict()['layers']
                  for n in sdm0:
                      for f in ('A', 'G'):
                          a, b = sdm0[n][f], sdm1[n][f]
                          if (a is None) != (b is None) or (a is not None and not torch.equal(a, b)):
                              return violation(f'op {i}: an eval-mode pass after micro-batch {micro} of the iteration changed factor {f} of {n}', 'eval-changed-state', labels=labels)
            if not train:
                sd1 = pre.state_dict()
                if pre.steps != st0 or dict(pre.memory_usage()) != mem0:
                    return violation(f'op {i}: eval-mode pass changed steps/memory usage', 'eval-changed-state', labels=labels)
                for n in sd0['layers']:
                    for f in ('A', 'G'):
                        a, b = sd0['layers'][n][f], sd1['layers'][n][f]
                        if (a is None) != (b is None) or (a is not None and not torch.equal(a, b)):
                            return violation(f'op {i}: eval-mode pass changed factor {f} of {n}', 'eval-changed-state', labels=labels)
                continue
            if wide is not None:
                for m in (model, twin):
                    for p in m.parameters():
                        if p.grad is not None:
                            p.grad = p.grad.to(wide)
            if scale * accum != 1.0:
                for m in (model, twin):
                    for p in m.parameters():
                        if p.grad is not None:
                            p.grad /= (scale * accum)
            params0 = {n: p.detach().clone() for n, p in model.named_parameters()}
            bufs0 = {n: b.detach().clone() for n, b in model.named_buffers()}
            grads0 = {n: (None if p.grad is None else p.grad.detach().clone()) for n, p in model.named_parameters()}
            finite_in = all(torch.isfinite(g).all() for g in grads0.values() if g is not None)
            try:
                pre.step()
            except torch.linalg.LinAlgError as e:
                # an exactly singular damped factor can only arise from rounding in a low-precision factor dtype (the inverse
                # method adds the damping in that dtype); that is a numerical-domain matter (C01), not a non-interference one
                labels['linalg_error'] = True
                return passed(False, labels, {'note': str(e)[:200]})
            except Exception as e:  # noqa: BLE001
                return violation(f'op {i}: step() raised {type(e).__name__}: {e}', 'exception', labels=labels)
            # read-only looking operations right after the step (a user logging the object); they must not influence what follows
            repr(pre)
            for hp_name in ('factor_update_steps', 'inv_update_steps', 'damping', 'factor_decay', 'kl_clip', 'lr', 'steps'):
                getattr(pre, hp_name)
            for n, p in model.named_parameters():
                if not torch.equal(p.detach(), params0[n]):
                    return violation(f'op {i}: step() changed parameter {n}', 'parameter-changed', labels=labels)
                g0, g1 = grads0[n], p.grad
                if n in reg_params:
                    if g1 is None or g1.shape != g0.shape or g1.dtype != g0.dtype or g1.device != g0.device:
                        return violation(f'op {i}: registered gradient {n}: shape/dtype/device changed from {tuple(g0.shape)}/{g0.dtype} to '
                                         f'{None if g1 is None else (tuple(g1.shape), g1.dtype)}', 'grad-meta-changed', labels=labels)
                    if not g1.is_contiguous():
                        return violation(f'op {i}: registered gradient {n} is not contiguous after step()', 'grad-not-contiguous', labels=labels)
                    if finite_in and not torch.isfinite(g1).all():
                        return violation(f'op {i}: registered gradient {n} is not finite after step() although all inputs were', 'grad-not-finite', labels=labels)
                else:
                    if (g0 is None) != (g1 is None) or (g0 is not None and (g1.dtype != g0.dtype or not torch.equal(g0, g1))):
                        return violation(f'op {i}: step() changed the gradient of {n}, which is outside the registered layers {sorted(registered)}',
                                         'unregistered-grad-changed', labels=labels)
            for n, b in model.named_buffers():
                if not torch.equal(b, bufs0[n]):
                    return violation(f'op {i}: step() changed buffer {n}', 'buffer-changed', labels=labels)
            if frozen_now:
                sd_after = pre.state_dict()['layers']
                for nm in frozen_now:
                    for f in ('A', 'G'):
                        a, b = sd_frozen[nm][f], sd_after[nm][f]
                        if (a is None) != (b is None) or (a is not None and not torch.equal(a, b)):
                            return violation(f'op {i}: layer {nm} was in eval mode during the whole iteration (other layers in train mode) but its factor {f} changed',
                                             'eval-changed-state', labels=labels)
            # identical bounded update on model and twin
            with torch.no_grad():
                for (n1, p1), (n2, p2) in zip(model.named_parameters(), twin.named_parameters()):
                    if p1.grad is not None and p1.requires_grad and torch.isfinite(p1.grad).all():
                        p1.add_((p1.grad / max(1.0, p1.grad.abs().max().item())).to(p1.dtype), alpha=-0.05)
                    p2.copy_(p1)
                for (n1, b1), (n2, b2) in zip(model.named_buffers(), twin.named_buffers()):
                    b2.copy_(b1)
        if saw_eval and registered:
            # eval-mode passes leave ALL K-FAC state unchanged, also the part state_dict() does not show (accumulation counters, saved
            # batch statistics): the same history with the eval passes removed must give bit-identical gradients and factors
            try:
                g1, f1, s1 = _kfac_only_run(case, case['program'], kw)
                g2, f2, s2 = _kfac_only_run(case, [o for o in case['program'] if o['op'] == 'train'], kw, with_mid_eval=False)
            except torch.linalg.LinAlgError:
                g1 = g2 = f1 = f2 = s1 = s2 = None
            if g1 is not None:
                if s1 != s2:
                    return violation(f'eval-mode passes changed the step count ({s1} vs {s2} without them)', 'eval-changed-state', labels=labels)
                for t, (a, b) in enumerate(zip(g1, g2)):
                    for n in a:
                        if (a[n] is None) != (b[n] is None) or (a[n] is not None and not torch.equal(a[n], b[n]) and not (torch.isnan(a[n]).any() and torch.isnan(b[n]).any())):
                            return violation(f'train step {t}: gradient of {n} after step() differs between the history with eval-mode passes and the '
                                             f'same history without them (accumulation_steps={accum}, in_hook={case["in_hook"]}, program='
                                             f'{[o["op"] for o in case["program"]]})', 'eval-changed-state', labels=labels)
                for n in f1:
                    for k in ('A', 'G'):
                        a, b = f1[n][k], f2[n][k]
                        if (a is None) != (b is None) or (a is not None and not torch.equal(a, b) and not (torch.isnan(a).any() and torch.isnan(b).any())):
                            return violation(f'factor {k} of {n} at the end differs between the history with eval-mode passes and the same history '
                                             f'without them (accumulation_steps={accum}, in_hook={case["in_hook"]})', 'eval-changed-state', labels=labels)
        labels['accum'] = accum
        labels['mid_iteration_eval'] = saw_mid_eval
        labels['mixed_modes'] = saw_mixed
        nt = bool(registered) and unreg_trainable and (labels['skipped'] or labels['frozen'] or case['param_dtype'] != 'float32' or saw_eval or has_res)
        labels['nontrivial'] = nt
        return passed(nt, labels)


PROP = C10()
