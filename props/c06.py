"""C06 - KAISA work assignment is well-formed and identical on every rank."""

from __future__ import annotations

import json
import os
import subprocess
import sys
import warnings

from hypothesis import strategies as st

from vkit.runner import Prop, passed, violation, REPO


def divisors(n):
    return [d for d in range(1, n + 1) if n % d == 0]


def family(idx, W, k):
    """Fixed families of cost dictionaries (layer -> {factor: cost})."""
    if idx == 0:    # uniform, a few layers
        return {f'l{i}': {'A': 8, 'G': 8} for i in range(3)}
    if idx == 1:    # all ties, more layers than ranks
        return {f'l{i}': {'A': 1, 'G': 1} for i in range(W + 2)}
    if idx == 2:    # zeros
        return {f'l{i}': {'A': 0, 'G': 0} for i in range(4)}
    if idx == 3:    # one giant
        d = {f'l{i}': {'A': 1, 'G': 2} for i in range(5)}
        d['l2'] = {'A': 10 ** 9, 'G': 10 ** 9}
        return d
    if idx == 4:    # fewer layers than ranks (single)
        return {'only': {'A': 27, 'G': 64}}
    if idx == 5:    # A >> G
        return {f'l{i}': {'A': (i + 2) ** 3 * 100, 'G': i + 1} for i in range(6)}
    if idx == 6:    # G >> A
        return {f'l{i}': {'A': i + 1, 'G': (7 - i) ** 3 * 100} for i in range(6)}
    if idx == 7:    # decreasing, as many as worker groups
        return {f'l{i}': {'A': 1000 - i, 'G': 500 - i} for i in range(max(1, W // k))}
    if idx == 8:    # n^3 costs of a LeNet-like model
        return {n: {'A': a ** 3, 'G': g ** 3} for n, a, g in
                [('conv1', 26, 6), ('conv2', 55, 16), ('fc1', 577, 120), ('fc2', 121, 84), ('fc3', 85, 10)]}
    if idx == 9:    # float ties
        return {f'l{i}': {'A': 0.5, 'G': 0.25 if i % 2 else 0.5} for i in range(7)}
    if idx == 10:   # many layers
        return {f'layer.{i}': {'A': (i * 7919) % 13, 'G': (i * 104729) % 11} for i in range(3 * W // 2 + 1)}
    if idx == 11:   # names whose sort order differs from insertion order
        return {n: {'A': c, 'G': c} for n, c in [('z', 3), ('a', 3), ('m', 3), ('b', 5), ('y', 5)]}
    raise IndexError(idx)


NFAM = 12


def check_world(W, k, colocate, work, frac=None):
    """Instantiate the assignment on every rank and check the C06 relations.
    Returns None or (key, msg)."""
    # (decoy objects with another configuration are created in between, see below)
    from kfac.assignment import KAISAAssignment

    frac = k / W if frac is None else frac
    # Constructions that must be refused (worker counts that do not divide the world; incl. those with the same W // k' as the valid
    # one) are attempted first in the same process: whatever they do, they must not affect the valid objects built afterwards.
    for k_bad in [kb for kb in range(2, W) if W % kb != 0][:6]:
        try:
            KAISAAssignment(work, local_rank=0, world_size=W, grad_worker_fraction=k_bad / W,
                            group_func=lambda ranks: tuple(sorted(ranks)), colocate_factors=colocate)
        except Exception:  # noqa: BLE001  (whether and how they are refused is checked elsewhere in this property)
            pass
    insts = []
    for r in range(W):
        try:
            a = KAISAAssignment(
                work, local_rank=r, world_size=W, grad_worker_fraction=frac,
                group_func=lambda ranks: tuple(sorted(ranks)), colocate_factors=colocate,
            )
        except Exception as e:
            return 'construction', f'KAISAAssignment(W={W}, fraction={frac!r} (k={k}), rank={r}) raised {type(e).__name__}: {e}'
        insts.append(a)
    # Decoys: other assignment objects over the SAME layer names with another worker count, the other co-location choice and
    # other costs are created after the ones under test and kept alive while those are queried (a training script that builds a
    # second preconditioner, or a sweep over strategies in one process); objects must not share state.
    decoys = []
    k2 = W if k != W else 1
    names = list(work)
    work2 = {n: {f: (c + 1) * (len(names) - i) for f, c in work[n].items()} for i, n in enumerate(names)}
    for r in sorted({0, W - 1}):
        try:
            decoys.append(KAISAAssignment(work2, local_rank=r, world_size=W, grad_worker_fraction=k2 / W,
                                          group_func=lambda ranks: tuple(sorted(ranks)), colocate_factors=not colocate))
        except Exception:  # noqa: BLE001  (the decoy configuration is not under test)
            pass
    a0 = insts[0]
    layers = a0.get_layers()
    if set(layers) != set(work):
        return 'layers', f'get_layers() = {layers} != work layers {list(work)}'
    # public partitions
    try:
        wparts = KAISAAssignment.partition_grad_workers(W, k)
        rparts = KAISAAssignment.partition_grad_receivers(W, k)
    except Exception as e:
        return 'construction', f'partition functions raised for W={W}, k={k}: {e}'
    for parts, size, what in ((wparts, k, 'gradient-worker'), (rparts, W // k, 'gradient-receiver')):
        flat = sorted(x for p in parts for x in p)
        if flat != list(range(W)) or any(len(p) != size for p in parts):
            return 'partition', f'{what} groups {sorted(map(sorted, parts))} do not partition range({W}) into parts of size {size}'
    for wp in wparts:
        for rp in rparts:
            if len(set(wp) & set(rp)) != 1:
                return 'partition', f'worker group {sorted(wp)} and receiver group {sorted(rp)} share {len(set(wp) & set(rp))} ranks (W={W}, k={k})'
    wsets = {frozenset(p) for p in wparts}
    rsets = {frozenset(p) for p in rparts}
    for layer in layers:
        factors = a0.get_factors(layer)
        if set(factors) != set(work[layer]):
            return 'layers', f'get_factors({layer}) = {factors}'
        invs = {f: a0.inv_worker(layer, f) for f in factors}
        for r, a in enumerate(insts):
            for f in factors:
                if a.inv_worker(layer, f) != invs[f]:
                    return 'rank-disagree', (f'rank {r} derives inv_worker({layer},{f})={a.inv_worker(layer, f)}, '
                                             f'rank 0 derives {invs[f]} (W={W}, k={k}, colocate={colocate})')
        if colocate and len(set(invs.values())) != 1:
            return 'colocate', f'colocate_factors=True but inverse workers of {layer} are {invs}'
        g0 = a0.grad_worker_group(layer)
        if frozenset(g0) not in wsets:
            return 'worker-group', f'grad_worker_group({layer}) = {g0} is not one of the worker groups {sorted(map(sorted, wsets))}'
        if not set(invs.values()) <= set(g0):
            return 'worker-group', f'inverse workers {invs} of {layer} are not all in its gradient-worker group {g0} (W={W}, k={k}, colocate={colocate})'
        for r, a in enumerate(insts):
            g = a.grad_worker_group(layer)
            if g != g0:
                return 'rank-disagree', f'rank {r} reports grad_worker_group({layer})={g}, rank 0 reports {g0}'
            if a.is_grad_worker(layer) != (r in g0):
                return 'is-grad-worker', f'rank {r}: is_grad_worker({layer})={a.is_grad_worker(layer)} but worker group is {g0}'
            rg = a.grad_receiver_group(layer)
            if frozenset(rg) not in rsets or r not in rg:
                return 'receiver-group', f'rank {r}: grad_receiver_group({layer})={rg} is not the receiver group containing the rank (groups {sorted(map(sorted, rsets))})'
            inter = set(g0) & set(rg)
            src = a.src_grad_worker(layer)
            if len(inter) != 1 or src not in inter:
                return 'src-grad-worker', (f'rank {r}: src_grad_worker({layer})={src}, worker group {g0}, own receiver group {rg} '
                                           f'(W={W}, k={k}, colocate={colocate})')
            if r in g0 and src != r:
                return 'src-grad-worker', f'rank {r} is a gradient worker of {layer} but its gradient source is {src}'
            if a.factor_group(layer, factors[0]) is not None:
                return 'factor-group', f'factor_group is not the world group: {a.factor_group(layer, factors[0])}'
    for r, a in enumerate(insts):
        if a.broadcast_gradients() != (k < W) or a.broadcast_inverses() != (k > 1):
            return 'flags', (f'rank {r}: broadcast_gradients()={a.broadcast_gradients()} broadcast_inverses()={a.broadcast_inverses()} '
                             f'for W={W}, k={k}')
    return None


COST = st.one_of(st.sampled_from([0, 1, 1, 8, 27, 64, 125, 729, 1000, 0.5]), st.integers(0, 30).map(lambda n: n ** 3),
                 st.integers(0, 30).map(lambda n: n ** 2))


@st.composite
def _case(draw):
    W = draw(st.one_of(st.integers(1, 16), st.integers(1, 48), st.sampled_from([6, 8, 9, 10, 12, 16, 18, 24, 30, 36, 48, 60, 64])))
    k = draw(st.sampled_from(divisors(W)))
    colocate = draw(st.booleans())
    n = draw(st.sampled_from([1, 2, 3, 5, 8, 12]))
    tie = draw(COST)
    names = draw(st.permutations([f'm.{i}' for i in range(n)]))
    work = [[nm, [['A', draw(st.one_of(COST, st.just(tie)))], ['G', draw(st.one_of(COST, st.just(tie)))]]] for nm in names]
    return {'kind': 'gen', 'W': W, 'k': k, 'colocate': colocate, 'work': work}


class C06(Prop):
    id = 'C06'
    title = 'KAISA work assignment is well-formed and identical on every rank'
    rule = ('Exhaustive part ("grid"): every world size W in 1..maxW (quick 40, thorough 128), every divisor k, colocate on/off, 12 '
            'fixed families of cost dictionaries (uniform, all ties with more layers than ranks, zeros, one giant, single layer, A>>G, '
            'G>>A, as many layers as groups, LeNet n^3, float ties, many layers, names out of sort order); for each the assignment is '
            'instantiated on EVERY rank (group_func returns the sorted rank tuple so handles are inspectable) and relations (a)-(e) of '
            'DESIGN.md C06 are checked through the public query methods. Fraction part ("frac"): every W in 1..maxF (quick 512, '
            'thorough 2048) x every divisor k, k/W given as float to KAISAAssignment (rank 0, one layer) must construct and yield a '
            'gradient-worker group of exactly k ranks; for W <= 128 also through KFACPreconditioner inside a static fake world of size '
            'W as float and, where the enum means k, as DistributedStrategy. Hypothesis part: drawn (W<=64, divisor k, colocate, 1-12 '
            'layers with drawn costs incl. ties and zeros, drawn insertion order). One cross-process case compares inverse-worker '
            'tables under 3 PYTHONHASHSEED values. Non-trivial: 1 < k < W, or a tie between layer totals, or more layers than ranks. '
            'One enumerated case = one (W,k,colocate,family) or one W of the fraction sweep; inner_evaluations counts instantiated assignments.')
    assumptions = ['group handles are observed by passing group_func=lambda ranks: tuple(sorted(ranks))',
                   'the static fake world for KFACPreconditioner patches torch.distributed.is_initialized/get_rank/get_world_size/new_group only']
    exhaustive = True
    examples = {'quick': 150, 'thorough': 1500}
    shards = {'quick': 8, 'thorough': 16}
    enum_shards = {'quick': 4, 'thorough': 16}
    required_labels = {'quick': ['kind=grid', 'kind=frac', 'kind=gen', 'kind=hashseed', 'nontrivial=True'],
                       'thorough': ['kind=grid', 'kind=frac', 'kind=gen', 'kind=hashseed', 'nontrivial=True']}

    fuzz = {'thorough': {'runs': 3000, 'max_time': 60, 'procs': 4}}

    def strategy(self, tier):
        return _case()

    def enumerate(self, tier, shard, nshards):
        maxW = 40 if tier == 'quick' else 128
        maxF = 512 if tier == 'quick' else 2048
        i = 0
        if shard == 0:
            yield {'kind': 'hashseed'}
        # interleave so that shards get comparable work
        for W in range(1, maxF + 1):
            if i % nshards == shard:
                yield {'kind': 'frac', 'W': W}
            i += 1
        for W in range(1, maxW + 1):
            for k in divisors(W):
                for colocate in (True, False):
                    if i % nshards == shard:
                        yield {'kind': 'grid', 'W': W, 'k': k, 'colocate': colocate}
                    i += 1

    def summarize(self, infos):
        return {'inner_evaluations': sum(i.get('inner', 0) for i in infos)}

    # ------------------------------------------------------------------
    def run_case(self, case):
        with warnings.catch_warnings():
            warnings.simplefilter('ignore')
            if case['kind'] == 'grid':
                return self._grid(case)
            if case['kind'] == 'frac':
                return self._frac(case)
            if case['kind'] == 'hashseed':
                return self._hashseed(case)
            return self._gen(case)

    def _grid(self, case):
        W, k, col = case['W'], case['k'], case['colocate']
        inner = 0
        fams = case.get('families', range(NFAM))
        for idx in fams:
            work = family(idx, W, k)
            bad = check_world(W, k, col, work)
            inner += W
            if bad:
                return violation(f'family {idx}: {bad[1]}', bad[0])
        nt = True  # the families always contain ties / more layers than ranks
        return passed(nt, {'kind': 'grid', 'nontrivial': nt, 'strategy': 'COMM' if k == W else 'MEM' if k == 1 else 'HYBRID'},
                      {'inner': inner})

    def _gen(self, case):
        W, k, col = case['W'], case['k'], case['colocate']
        work = {n: {f: c for f, c in fs} for n, fs in case['work']}
        bad = check_world(W, k, col, work)
        if bad:
            return violation(f'{bad[1]} :: work={work}', bad[0])
        totals = [sum(v.values()) for v in work.values()]
        nt = (1 < k < W) or len(set(totals)) < len(totals) or len(work) > W
        return passed(nt, {'kind': 'gen', 'nontrivial': nt}, {'inner': W})

    def _frac(self, case):
        import torch
        import torch.distributed as dist
        from kfac.assignment import KAISAAssignment
        from kfac.enums import DistributedStrategy
        from kfac.preconditioner import KFACPreconditioner

        W = case['W']
        work = {'l': {'A': 1, 'G': 1}}
        inner = 0
        for k in divisors(W):
            frac = k / W
            try:
                a = KAISAAssignment(work, local_rank=0, world_size=W, grad_worker_fraction=frac,
                                    group_func=lambda ranks: tuple(sorted(ranks)), colocate_factors=True)
            except Exception as e:
                return violation(f'fraction k/W = {k}/{W} = {frac!r} rejected by KAISAAssignment: {type(e).__name__}: {e}',
                                 'fraction-rejected')
            inner += 1
            g = a.grad_worker_group('l')
            if len(g) != k:
                return violation(f'fraction {k}/{W}: gradient-worker group {g} has {len(g)} ranks, expected {k}', 'fraction-count')
        if W <= 128:
            saved = (dist.is_initialized, dist.get_rank, dist.get_world_size, dist.new_group)
            dist.is_initialized = lambda: True
            dist.get_rank = lambda group=None: 0
            dist.get_world_size = lambda group=None: W
            dist.new_group = lambda ranks=None, **kw: tuple(sorted(ranks))
            try:
                for k in divisors(W):
                    variants = [('float', k / W)]
                    if k == W:
                        variants.append(('enum', DistributedStrategy.COMM_OPT))
                    if k == 1:
                        variants.append(('enum', DistributedStrategy.MEM_OPT))
                    if 2 * k == W:
                        variants.append(('enum', DistributedStrategy.HYBRID_OPT))
                    for how, val in variants:
                        try:
                            p = KFACPreconditioner(torch.nn.Linear(1, 1), grad_worker_fraction=val)
                        except Exception as e:
                            return violation(f'KFACPreconditioner(grad_worker_fraction={val!r}) in a world of {W} (k={k}) raised '
                                             f'{type(e).__name__}: {e}', 'fraction-rejected')
                        inner += 1
                        asg = getattr(p, '_assignment', None)
                        if asg is not None:
                            name = asg.get_layers()[0]
                            g = asg.grad_worker_group(name)
                            if len(g) != k:
                                return violation(f'KFACPreconditioner fraction {val!r} in world {W}: worker group {g} has {len(g)} ranks, expected {k}',
                                                 'fraction-count')
            finally:
                dist.is_initialized, dist.get_rank, dist.get_world_size, dist.new_group = saved
        nt = len(divisors(W)) > 2
        return passed(nt, {'kind': 'frac', 'nontrivial': nt}, {'inner': inner})

    def _hashseed(self, case):
        prog = (
            "import sys, json, random, warnings\n"
            "warnings.simplefilter('ignore')\n"
            f"sys.path.insert(0, {REPO!r})\n"
            "from kfac.assignment import KAISAAssignment\n"
            "rng = random.Random(777)\n"
            "out = []\n"
            "for i in range(40):\n"
            "    W = rng.choice([2, 4, 6, 8, 12])\n"
            "    k = rng.choice([d for d in range(1, W + 1) if W % d == 0])\n"
            "    tie = rng.choice([1, 8, 27])\n"
            "    work = {'blk%d.%s' % (j, rng.choice(['fc', 'conv', 'proj', 'out'])): {'A': rng.choice([tie, tie, 64]), 'G': rng.choice([tie, 1])} for j in range(rng.randint(1, 9))}\n"
            "    col = rng.random() < 0.5\n"
            "    r = rng.randrange(W)\n"
            "    a = KAISAAssignment(work, local_rank=r, world_size=W, grad_worker_fraction=k / W, group_func=lambda x: tuple(sorted(x)), colocate_factors=col)\n"
            "    out.append([[l, [a.inv_worker(l, f) for f in a.get_factors(l)], a.src_grad_worker(l), list(a.grad_worker_group(l))] for l in a.get_layers()])\n"
            "print(json.dumps(out))\n"
        )
        outs = []
        for hs in ('0', '1', '987654'):
            env = dict(os.environ, PYTHONHASHSEED=hs, PYTHONWARNINGS='ignore')
            r = subprocess.run([sys.executable, '-c', prog], env=env, capture_output=True, text=True, timeout=300)
            if r.returncode != 0:
                raise RuntimeError('hashseed subprocess failed: ' + r.stderr[-2000:])
            outs.append(r.stdout.strip().splitlines()[-1])
        if len(set(outs)) != 1:
            a = json.loads(outs[0])
            b = json.loads(next(o for o in outs if o != outs[0]))
            idx = next(i for i in range(len(a)) if a[i] != b[i])
            return violation(f'assignment depends on PYTHONHASHSEED (ranks are separate processes with independent hash seeds): '
                             f'config #{idx}: {a[idx]} vs {b[idx]}', 'hashseed-dependent')
        return passed(True, {'kind': 'hashseed', 'nontrivial': True}, {'inner': 120})


PROP = C06()
