"""C16 - exactly the eligible layers are registered, once each."""

from __future__ import annotations

import re
import warnings

from hypothesis import strategies as st

from vkit.runner import Prop, passed, violation

LEAF_KINDS = ['linear'] * 5 + ['conv'] * 4 + ['linear', 'linear', 'linear_nobias', 'conv', 'conv', 'conv_nobias', 'sublinear', 'subconv', 'relu', 'tanh',
              'flatten', 'bn', 'ln', 'embedding', 'paramleaf', 'identity', 'bilinear', 'conv1d', 'lazyname',
              # supported classes that are NOT leaves: they own child modules (empty containers to be filled later / an activation)
              'linear_empty_kids', 'conv_empty_kids', 'linear_with_act']
CONTAINERS = ['seq', 'modlist', 'moddict', 'custom']
FREEZE = ['none', 'none', 'none', 'none', 'weight', 'bias', 'all']
NAME_POOL = ['fc', 'fc2', 'fc_out', 'conv', 'conv_bn', 'head', 'head2', 'block', 'block1', 'layer1', 'proj', 'proj_out', 'embed', 'skip_me', 'a', 'a1', 'b0', 'linear', 'Linear', 'x_1']


def _tree(depth, draw_min=2):
    leaf = st.fixed_dictionaries({'t': st.sampled_from(LEAF_KINDS), 'freeze': st.sampled_from(FREEZE),
                                  'share': st.sampled_from([None, None, None, None, 0, 1])})
    if depth == 0:
        return leaf
    child = st.deferred(lambda: _tree(depth - 1, 1))
    cont = st.fixed_dictionaries({
        't': st.sampled_from(CONTAINERS),
        'names': st.one_of(st.lists(st.sampled_from(NAME_POOL), min_size=0, max_size=5, unique=True),
                          st.sampled_from([['fc', 'fc2'], ['fc', 'fc_out', 'fc2'], ['conv', 'conv_bn'], ['proj', 'proj_out'], ['a', 'a1', 'b0'], ['head', 'head2'], ['block', 'block1', 'fc']])),
        'children': st.lists(child, min_size=draw_min, max_size=5),
    })
    return st.one_of(leaf, cont, cont) if draw_min == 1 else cont


def _pattern_strategy():
    frag = st.sampled_from(['fc', 'conv', 'Linear', 'linear', 'Conv2d', 'head', 'block', 'skip', 'layer1', '0', '1', 'proj',
                            'MyLinear', 'My', 'embed', 'zzz_nomatch', 'x_1', 'a', 'b0'])
    return st.one_of(
        frag,
        frag.map(lambda f: '^' + f),
        frag.map(lambda f: f + '$'),
        frag.map(lambda f: '^' + f + '$'),
        st.tuples(frag, frag).map(lambda t: t[0] + '|' + t[1]),
        st.tuples(frag, frag).map(lambda t: t[0] + r'\.' + t[1]),
        st.tuples(frag, frag).map(lambda t: t[0] + '.' + t[1]),
        st.sampled_from([r'\d', r'\.\d+$', r'^\d+$', r'^$', r'(?i)LINEAR', r'[A-Z]', r'^[a-z_0-9.]+$', r'block\.\d\.fc', r'(fc|head)\d?$', '']),
        # patterns whose meaning depends on being compiled on their own: inline flags, group numbering, named groups
        st.sampled_from([r'(?i)LINEAR', r'(?i)conv2D', r'(?i)^FC', r'(?x) fc \d', r'(fc)\d?\.\1', r'(\d)\.\1', r'(?P<n>head)', r'(?P<n>fc)', r'(?s)a.b',
                         r'(m)(\d)\.\1\2', r'(?i)my']),
        st.sampled_from([r'(?i)LINEAR', r'(?i)conv2D', r'(fc)\d?\.\1', r'(\d)\.\1', r'(?P<n>head)', r'(?P<n>fc)', r'(m)(\d)\.\1\2']),
        # patterns sensitive to what exactly the subject string is (its true start / end, characters that are not in any name):
        # they tell a search over the name and over the class name apart from a search over some concatenation of the two
        frag.map(lambda f: f + r'\Z'),
        frag.map(lambda f: r'\A' + f),
        frag.map(lambda f: r'\A' + f + r'\Z'),
        frag.map(lambda f: f + r'[^\w.]'),
        frag.map(lambda f: f + r'\s'),
        frag.map(lambda f: f + r'(?!.)'),
        frag.map(lambda f: r'(?<!.)' + f),
        st.sampled_from([r'\s', r'\W\D', r'[^\w.]', r'\n', r'\d\D[A-Z]', r'[a-z0-9]\W[A-Z]', r'(?s)\d.[A-Z]', r'\w\s\w', r'\ALinear\Z', r'\AConv2d\Z', r'\A\d+\Z']),
    )


@st.composite
def _case(draw):
    tree = draw(_tree(draw(st.sampled_from([0, 1, 1, 2, 2, 3, 3, 4]))))
    pats = draw(st.lists(_pattern_strategy(), min_size=draw(st.sampled_from([0, 1, 1, 2])), max_size=3))
    return {'tree': tree, 'skip_layers': pats, 'method': draw(st.sampled_from(['eigen', 'inverse'])),
            'variant': 'kaisa', 'refused_first': draw(st.sampled_from([0, 0, 1, 2, 3, 4]))}


GPT_LEAVES = ['col', 'col', 'row', 'row', 'col_nobias', 'row_nobias', 'linear', 'relu', 'ln', 'subcol', 'embedding']


@st.composite
def _gpt_case(draw):
    def node(depth):
        leaf = st.fixed_dictionaries({'t': st.sampled_from(GPT_LEAVES), 'freeze': st.sampled_from(FREEZE),
                                      'share': st.sampled_from([None, None, None, 0])})
        if depth == 0:
            return leaf
        child = st.deferred(lambda: node(depth - 1))
        cont = st.fixed_dictionaries({'t': st.sampled_from(CONTAINERS), 'names': st.lists(st.sampled_from(['mlp', 'attention', 'dense_h_to_4h', 'dense_4h_to_h', 'query_key_value', 'dense', 'dense_4h', 'final', 'final_linear']), max_size=4, unique=True),
                                      'children': st.lists(child, min_size=1, max_size=5)})
        return st.one_of(leaf, cont, cont)
    tree = draw(st.fixed_dictionaries({'t': st.just('custom'), 'names': st.just([]), 'children': st.lists(node(draw(st.sampled_from([0, 1, 2]))), min_size=1, max_size=5)}))
    pat = st.sampled_from(['RowParallelLinear', 'ColumnParallelLinear', 'rowparallellinear', 'columnparallel', 'Parallel', 'parallel', 'Linear$', 'linear$',
                           '^m0$', 'mlp', 'dense', r'\.dense_h_to_4h$', 'attention', r'^m\d+\.m0', 'nomatch', 'Row|embed', '^Column', 'ROWPARALLEL', r'\d'])
    return {'variant': 'gpt', 'tree': tree, 'skip_layers': draw(st.lists(pat, max_size=3))}


def build(tree):
    """Build the nn.Module tree described by the JSON spec."""
    import torch
    from torch import nn

    class MyLinear(nn.Linear):
        pass

    class MyConv(nn.Conv2d):
        pass

    class ParamLeaf(nn.Module):
        def __init__(self):
            super().__init__()
            self.weight = nn.Parameter(torch.zeros(2, 2))

    class Linearish(nn.Module):   # name looks like a Linear, type is not
        def __init__(self):
            super().__init__()
            self.weight = nn.Parameter(torch.zeros(2, 2))
            self.bias = nn.Parameter(torch.zeros(2))

    class Custom(nn.Module):
        pass

    class ColumnParallelLinear(nn.Module):
        def __init__(self, bias=True):
            super().__init__()
            self.weight = nn.Parameter(torch.zeros(4, 3))
            self.bias = nn.Parameter(torch.zeros(4)) if bias else None

    class RowParallelLinear(nn.Module):
        def __init__(self, bias=True):
            super().__init__()
            self.weight = nn.Parameter(torch.zeros(3, 4))
            self.bias = nn.Parameter(torch.zeros(3)) if bias else None

    class MyColumnParallelLinear(ColumnParallelLinear):      # a subclass has a different class name: not eligible
        pass

    class SlotLinear(nn.Linear):             # a Linear that owns (still empty) containers: a parent module, not a leaf
        def __init__(self):
            super().__init__(3, 2)
            self.adapters = nn.ModuleDict()
            self.post = nn.Sequential()

    class SlotConv(nn.Conv2d):
        def __init__(self):
            super().__init__(2, 3, 2)
            self.branches = nn.ModuleList()

    class ActLinear(nn.Linear):              # a Linear that owns an activation module
        def __init__(self):
            super().__init__(3, 2)
            self.act = nn.Tanh()

    shared: dict = {}

    def leaf(spec):
        t = spec['t']
        m = {
            'col': ColumnParallelLinear, 'row': RowParallelLinear, 'col_nobias': lambda: ColumnParallelLinear(False),
            'row_nobias': lambda: RowParallelLinear(False), 'subcol': MyColumnParallelLinear,
            'linear': lambda: nn.Linear(3, 2), 'linear_nobias': lambda: nn.Linear(3, 2, bias=False),
            'conv': lambda: nn.Conv2d(2, 3, 2), 'conv_nobias': lambda: nn.Conv2d(2, 3, 2, bias=False),
            'sublinear': lambda: MyLinear(3, 2), 'subconv': lambda: MyConv(2, 3, 2), 'relu': nn.ReLU, 'tanh': nn.Tanh,
            'flatten': nn.Flatten, 'bn': lambda: nn.BatchNorm2d(3), 'ln': lambda: nn.LayerNorm(2),
            'embedding': lambda: nn.Embedding(5, 3), 'paramleaf': ParamLeaf, 'identity': nn.Identity,
            'bilinear': lambda: nn.Bilinear(2, 2, 2), 'conv1d': lambda: nn.Conv1d(2, 2, 2), 'lazyname': Linearish,
            'linear_empty_kids': SlotLinear, 'conv_empty_kids': SlotConv, 'linear_with_act': ActLinear,
        }[t]()
        fr = spec['freeze']
        if fr == 'all':
            for p in m.parameters():
                p.requires_grad_(False)
        elif fr in ('weight', 'bias'):
            p = getattr(m, fr, None)
            if isinstance(p, nn.Parameter):
                p.requires_grad_(False)
        return m

    def rec(spec):
        if 'children' not in spec:
            sh = spec.get('share')
            if sh is not None:
                key = (sh, spec['t'])
                if key not in shared:
                    shared[key] = leaf(spec)
                return shared[key]
            return leaf(spec)
        kids = [rec(c) for c in spec['children']]
        t = spec['t']
        names = list(spec['names'])
        if t == 'seq':
            return nn.Sequential(*kids)
        if t == 'modlist':
            return nn.ModuleList(kids)
        named = []
        for i, k in enumerate(kids):
            named.append((names[i] if i < len(names) else f'm{i}', k))
        if t == 'moddict':
            return nn.ModuleDict(dict(named))
        c = Custom()
        for n, k in named:
            setattr(c, n, k)
        return c

    return rec(tree)


def oracle_walk(root):
    """Independent walk: (qualified name, module) of every distinct module, first name wins."""
    seen = set()
    out = []

    def rec(prefix, m):
        if id(m) in seen:
            return
        seen.add(id(m))
        out.append((prefix, m))
        for n, c in m._modules.items():
            if c is None:
                continue
            rec(prefix + ('.' if prefix else '') + n, c)
    rec('', root)
    return out


class C16(Prop):
    id = 'C16'
    title = 'Exactly the eligible layers are registered, once each'
    rule = ('Hypothesis draws module trees (depth <= 4, Sequential/ModuleList/ModuleDict/custom containers with drawn attribute names, '
            'leaves from {Linear, bias-free Linear, Conv2d, bias-free Conv2d, subclasses of both, ReLU, Tanh, Flatten, BatchNorm2d, '
            'LayerNorm, Embedding, Bilinear, Conv1d, parameter-only leaf, a non-Linear module with weight and bias}, weight/bias/all '
            'frozen, shared instances at several paths, the root itself possibly a leaf) and 0-3 skip patterns from a grammar over the '
            'actual names and class names (literals, anchors, alternation, escaped and unescaped dots, digit classes, inline flags, empty '
            'pattern, patterns matching nothing). Oracle: independent walk over _modules; eligible iff leaf, isinstance Linear/Conv2d, all '
            'parameters trainable, re.search of every pattern misses the qualified name and the class name. Compared with the names in '
            'state_dict()["layers"], the hook counts on every module (exactly one forward-pre and one backward hook on registered modules, '
            'none elsewhere) and requires_grad/training flags left untouched. Non-trivial: >= 1 eligible and >= 1 ineligible Linear/Conv2d '
            'leaf whose ineligibility comes from a name pattern, a class pattern, a partial freeze, or a shared instance occurs. GPT-NeoX variant (one third of the cases): trees of Column/RowParallelLinear doubles, a subclass, plain Linear and other leaves passed to kfac.gpt_neox.preconditioner.register_modules; eligible iff class name is Column/RowParallelLinear, all parameters trainable, no pattern hits; patterns that match the class name only case-insensitively may go either way (the docstring promises case-insensitivity, the statement a regular-expression search); parallelism kind must be output/input respectively.')
    assumptions = ['registration is observed through state_dict()["layers"] names and torch hook dictionaries on the modules',
                   'GPT-NeoX variant (class-name eligibility) is checked with DeepSpeed/Megatron doubles']
    examples = {'quick': 500, 'thorough': 4000}
    shards = {'quick': 8, 'thorough': 16}
    required_labels = {'quick': ['nontrivial=True', 'why_name=True', 'why_class=True', 'why_freeze=True', 'shared=True', 'variant=gpt', 'variant=kaisa'],
                       'thorough': ['nontrivial=True', 'why_name=True', 'why_class=True', 'why_freeze=True', 'shared=True']}

    fuzz = {'thorough': {'runs': 8000, 'max_time': 60, 'procs': 4}}

    def strategy(self, tier):
        return st.one_of(_case(), _case(), _gpt_case())

    def run_case(self, case):
        if case.get('variant') == 'gpt':
            return self._gpt(case)
        return self._kaisa(case)

    def _gpt(self, case):
        from vkit import ds_doubles
        ds_doubles.install()
        from kfac.distributed import TorchDistributedCommunicator
        from kfac.gpt_neox.preconditioner import register_modules
        root = build(case['tree'])
        pats = case['skip_layers']
        walk = oracle_walk(root)
        must, may = {}, {}
        n_inel = 0
        reasons = set()
        for name, m in walk:
            if any(c is not None for c in m._modules.values()):
                continue
            cls = type(m).__name__
            exact = cls.lower() in ('columnparallellinear', 'rowparallellinear')
            if not exact and not cls.lower().endswith(('columnparallellinear', 'rowparallellinear')):
                continue
            trainable = all(p.requires_grad for p in m.parameters())
            hit_name = any(re.search(p, name) for p in pats)
            hit_cls = any(re.search(p, cls) for p in pats)                      # the statement: regular-expression search
            hit_cls_ci = any(re.search(p, cls, re.IGNORECASE) or re.search(p, cls.lower()) for p in pats)   # documented "case-insensitive"
            if not exact:
                if trainable and not hit_name and not hit_cls:
                    may[name] = m      # a subclass (different class name): the statement does not say; either outcome is acceptable
                continue
            if trainable and not hit_name and not hit_cls_ci:
                must[name] = m
            elif trainable and not hit_name and not hit_cls:
                may[name] = m          # matches only case-insensitively: either outcome is acceptable
            else:
                n_inel += 1
                reasons.add('name' if hit_name else 'class' if hit_cls else 'freeze')
        try:
            with warnings.catch_warnings():
                warnings.simplefilter('ignore')
                layers = register_modules(root, model_parallel_group=None, skip_layers=list(pats), tdc=TorchDistributedCommunicator())
        except Exception as e:
            return violation(f'GPT-NeoX register_modules raised {type(e).__name__}: {e} for skip={pats}', 'construction')
        got = {n: m for m, (n, _) in layers.items()}
        labels = {'variant': 'gpt', 'npatterns': len(pats), 'n_registered': min(len(must), 6)}
        if len(got) != len(layers):
            return violation('two modules registered under one name', 'registered-set', labels=labels)
        missing = [n for n in must if n not in got]
        extra = [n for n in got if n not in must and n not in may]
        if missing or extra:
            return violation(f'GPT-NeoX registration: missing {missing}, unexpected {extra}; skip_layers={pats}; '
                             f'modules={[(n, type(m).__name__) for n, m in walk]}', 'gpt-registered-set', labels=labels)
        for n, m in got.items():
            exp = must.get(n, may.get(n))
            if exp is not m:
                return violation(f'module registered as {n!r} is not the module at that path', 'name-module-pairing', labels=labels)
            par = layers[m][1].parallelism
            want = 'output' if type(m).__name__.lower().endswith('columnparallellinear') else 'input'
            if par != want:
                return violation(f'{n}: registered with parallelism {par!r}, expected {want!r}', 'gpt-parallelism', labels=labels)
        nt = bool(must) and n_inel > 0
        labels.update({'nontrivial': nt, 'why_name': 'name' in reasons, 'why_class': 'class' in reasons, 'why_freeze': 'freeze' in reasons})
        return passed(nt, labels)

    def _kaisa(self, case):
        import torch
        from kfac.preconditioner import KFACPreconditioner

        root = build(case['tree'])
        pats = case['skip_layers']
        walk = oracle_walk(root)
        flags_before = {id(m): (m.training, [p.requires_grad for p in m.parameters(recurse=False)]) for _, m in walk}
        expected = {}
        reasons = set()
        n_inel = 0
        counts = {}
        for _, m in oracle_walk(root):
            pass
        # occurrences per module (shared instances)
        def occ(m, acc):
            for c in m._modules.values():
                if c is not None:
                    acc[id(c)] = acc.get(id(c), 0) + 1
                    occ(c, acc)
        occ(root, counts)
        shared = any(v > 1 for v in counts.values())
        for name, m in walk:
            if any(c is not None for c in m._modules.values()):
                continue
            if not isinstance(m, (torch.nn.Linear, torch.nn.Conv2d)):
                continue
            why = None
            if any(re.search(p, name) for p in pats):
                why = 'name'
            elif any(re.search(p, type(m).__name__) for p in pats):
                why = 'class'
            elif not all(p.requires_grad for p in m.parameters()):
                why = 'freeze'
            if why is None:
                expected[name] = m
            else:
                n_inel += 1
                reasons.add(why)
        if case.get('refused_first'):
            # a registration that cannot succeed (a skip pattern that is not a valid regular expression, after patterns that are) on
            # some other model in the same process: it may raise, but must not affect the registration that follows
            import torch
            other = torch.nn.Sequential(torch.nn.Conv2d(1, 1, 1), torch.nn.Linear(2, 2), torch.nn.Sequential(torch.nn.Linear(2, 1)))
            bads = (['Conv2d', '('], ['Linear', '[a-'], ['^0$', '(?P<x>a)(?P<x>b)'], ['Sequential', 'Conv2d', '*'])
            for bad in (bads[(case['refused_first'] - 1) % len(bads)],):
                try:
                    with warnings.catch_warnings():
                        warnings.simplefilter('ignore')
                        KFACPreconditioner(other, skip_layers=bad, compute_method=case['method'])
                except Exception:  # noqa: BLE001
                    pass
        try:
            with warnings.catch_warnings():
                warnings.simplefilter('ignore')
                pre = KFACPreconditioner(root, skip_layers=list(pats), compute_method=case['method'])
        except Exception as e:
            return violation(f'KFACPreconditioner construction raised {type(e).__name__}: {e} for tree={case["tree"]} skip={pats}', 'construction')
        got_names = list(pre.state_dict()['layers'].keys())
        if sorted(got_names) != sorted(expected):
            return violation(f'registered names {sorted(got_names)} != eligible {sorted(expected)}; skip_layers={pats}; '
                             f'modules={[(n, type(m).__name__) for n, m in walk]}', 'registered-set')
        layers = getattr(pre, '_layers', None)
        if layers is not None:
            if len(layers) != len(expected):
                return violation(f'{len(layers)} layers registered, {len(expected)} eligible', 'registered-set')
            for m, (n, _) in layers.items():
                if expected.get(n) is not m:
                    return violation(f'module registered under name {n!r} is not the module at that path', 'name-module-pairing')
        reg_ids = {id(m) for m in expected.values()}
        for name, m in walk:
            nf, nb = len(m._forward_pre_hooks), len(m._backward_hooks)
            want = 1 if id(m) in reg_ids else 0
            if nf != want or nb != want:
                return violation(f'module {name!r} ({type(m).__name__}) has {nf} forward-pre and {nb} backward hooks, expected {want} each', 'hooks')
            if len(m._forward_hooks) or len(getattr(m, '_backward_pre_hooks', {})):
                return violation(f'module {name!r} gained unexpected hooks', 'hooks')
            if flags_before[id(m)] != (m.training, [p.requires_grad for p in m.parameters(recurse=False)]):
                return violation(f'module {name!r}: training / requires_grad flags changed by registration', 'touched')
        nt = bool(expected) and n_inel > 0 and bool(reasons & {'name', 'class', 'freeze'} or shared)
        labels = {'variant': 'kaisa', 'nontrivial': nt, 'shared': shared, 'n_registered': min(len(expected), 6), 'npatterns': len(pats)}
        for w in ('name', 'class', 'freeze'):
            labels['why_' + w] = w in reasons
        return passed(nt, labels)


PROP = C16()
