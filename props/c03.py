"""C03 - all ranks issue matching collectives and no rank ever stalls.

Oracle = the protocol monitors of vkit/simdist, nothing else (numerics are C02's).
"""

from __future__ import annotations

from hypothesis import strategies as st

from vkit import gens
from vkit.runner import Prop, passed, violation
from props.c02 import placement


def _hp_at(v, step):
    return v['table'][step % len(v['table'])] if isinstance(v, dict) else v


@st.composite
def _kaisa_case(draw, worlds):
    W = draw(st.sampled_from(worlds))
    method = draw(st.sampled_from(['eigen', 'eigen', 'inverse']))
    prediv = draw(st.booleans()) if method == 'eigen' else False
    spec = draw(gens.model_spec(max_layers=3, max_dim=5, max_out=4, nd_linear=False))
    fus = draw(gens.table_or_const([1, 1, 2, 3]))
    ius = draw(gens.table_or_const([1, 1, 2, 3, 4]))
    case = {'kind': 'kaisa', 'W': W, 'method': method, 'prediv': prediv, 'spec': spec,
            'in_hook': draw(st.booleans()), 'accum': draw(st.sampled_from([1, 1, 2])), 'N': draw(st.integers(1, 2)),
            'zero_to_none': draw(st.booleans()),
            'inv_dtype': draw(st.sampled_from(['float32', 'float32', 'float64'])), 'factor_dtype': draw(st.sampled_from([None, None, 'float64'])),
            'param_dtype': draw(st.sampled_from(['float32', 'float32', 'float32', 'float64'])),
            'hp': {'factor_update_steps': fus, 'inv_update_steps': ius, 'damping': 0.01, 'factor_decay': 0.9,
                   'kl_clip': draw(st.sampled_from([1e-3, 1e30])), 'lr': 0.1}}
    case.update(draw(placement(W, method, prediv)))
    # optionally a LambdaParamScheduler over a constant interval (stepped on every rank between iterations)
    sched = {}
    if draw(st.integers(0, 3)) == 0:
        for key, v in (('factor_update_steps', fus), ('inv_update_steps', ius)):
            if not isinstance(v, dict) and draw(st.integers(0, 3)) > 0:
                sched[key] = {'table': draw(st.lists(st.sampled_from([1, 2, 1, 1.5, 3]), min_size=1, max_size=4))}
    if sched:
        case['scheduler'] = sched
        if W > 1 and draw(st.booleans()):
            # MEM-OPT (every layer has one gradient worker): the strategy under which a load implies no collective
            case.update({'k': 1, 'fraction': draw(st.sampled_from(['float', 'MEM']))})
    # program with step-count bookkeeping so that every generated program is valid
    n = draw(st.integers(1, 10))
    steps = 0
    prog = []
    ranks_subset = st.lists(st.integers(0, W - 1), unique=True, max_size=W).map(sorted)
    cast_ok = draw(st.integers(0, 3)) == 0
    for i in range(n):
        kind = draw(st.sampled_from(['train', 'train', 'train', 'eval', 'state_dict', 'memory_usage', 'reset_batch', 'load', 'reload_live']
                                    + (['sched_step', 'sched_step'] if sched else [])
                                    + (['cast'] if cast_ok else [])))
        if kind == 'sched_step':
            prog.append({'op': 'sched_step'})
        elif kind == 'cast':
            # the model is cast between two iterations (every rank does it, as a training script would)
            prog.append({'op': 'cast', 'dtype': draw(st.sampled_from(['float64', 'float32']))})
        elif kind == 'reload_live':
            if steps == 0:
                continue
            # a rank reloading its own state: on all ranks, or - where the load implies no collective (MEM-OPT, world of one) - on a subset
            subset_ok = case['k'] == 1 or W == 1
            prog.append({'op': 'reload_live', 'ranks': draw(st.one_of(st.none(), ranks_subset)) if subset_ok else None})
        elif kind == 'train':
            prog.append({'op': 'train', 'seed': draw(st.integers(0, 999))})
            steps += 1
        elif kind == 'eval':
            prog.append({'op': 'eval', 'seed': draw(st.integers(0, 999))})
        elif kind in ('state_dict', 'memory_usage', 'reset_batch'):
            prog.append({'op': kind, 'ranks': draw(st.one_of(st.none(), ranks_subset))})
        else:
            refresh_next = steps % _hp_at(ius, steps) == 0
            factor_next = steps % _hp_at(fus, steps) == 0
            ci = draw(st.booleans()) if (refresh_next and not sched) else True
            inc = draw(st.sampled_from([True, True, False])) if (refresh_next and factor_next and not sched) else True
            prog.append({'op': 'load', 'compute_inverses': ci, 'include_factors': inc})
    if not any(o['op'] == 'train' for o in prog):
        prog.append({'op': 'train', 'seed': 1})
    if sched and (case['k'] == 1 or W == 1) and draw(st.integers(0, 3)) > 0:
        # the interesting neighbourhood on purpose: the interval changes between two iterations and only some ranks reload in between
        for _ in range(draw(st.integers(1, 3))):
            prog += [{'op': 'train', 'seed': draw(st.integers(0, 999))}, {'op': 'sched_step'},
                     {'op': 'reload_live', 'ranks': draw(ranks_subset)}, {'op': 'train', 'seed': draw(st.integers(0, 999))}]
    if cast_ok and draw(st.booleans()):
        # the neighbourhood on purpose: a completed iteration, the cast to the other dtype, another iteration
        other = 'float32' if case.get('param_dtype', 'float32') == 'float64' else 'float64'
        prog += [{'op': 'train', 'seed': draw(st.integers(0, 999))}, {'op': 'cast', 'dtype': other}, {'op': 'train', 'seed': draw(st.integers(0, 999))}]
    case['program'] = prog
    case['schedule'] = draw(st.lists(st.integers(0, 63), max_size=250))
    case['flip'] = draw(st.booleans())
    return case


@st.composite
def _gpt_case(draw):
    pp, dp, mp = draw(st.sampled_from([(1, 1, 2), (1, 2, 1), (1, 2, 2), (2, 1, 1), (2, 2, 1), (2, 1, 2), (2, 2, 2), (1, 2, 3), (1, 3, 2), (1, 3, 1)]))
    blocks = draw(st.sampled_from([1, 1, 2]))
    ius = draw(st.sampled_from([1, 2, 3]))
    n = draw(st.integers(1, 7))
    prog, steps = [], 0
    for _ in range(n):
        k = draw(st.sampled_from(['train', 'train', 'train', 'state_dict', 'load', 'memory_usage']))
        if k == 'train':
            prog.append({'op': 'train', 'seed': draw(st.integers(0, 999))})
            steps += 1
        elif k == 'load':
            if steps == 0:
                continue            # GPT-NeoX state_dict() asserts that factors exist: only after the first step
            prog.append({'op': 'load', 'compute_inverses': draw(st.booleans()) if steps % ius == 0 else True})
        elif k == 'state_dict':
            if steps == 0:
                continue
            prog.append({'op': 'state_dict'})
        else:
            prog.append({'op': 'memory_usage'})
    if not any(o['op'] == 'train' for o in prog):
        prog.insert(0, {'op': 'train', 'seed': 1})
    return {'kind': 'gpt', 'pipe': pp, 'data': dp, 'model': mp, 'blocks': blocks, 'h': draw(st.integers(1, 3)), 'f': mp * draw(st.integers(1, 2)),
            'bias': [[draw(st.booleans()), draw(st.booleans())] for _ in range(blocks)], 'seed': draw(st.integers(0, 999)), 'N': draw(st.integers(1, 2)),
            'cap': draw(st.sampled_from([0, 1e-5, 25.0])), 'in_hook': draw(st.booleans()), 'accum': draw(st.sampled_from([1, 1, 2])), 'prediv': False,
            'hp': {'factor_update_steps': draw(st.sampled_from([1, 1, 2])), 'inv_update_steps': ius, 'damping': 0.05, 'factor_decay': 0.9,
                   'kl_clip': draw(st.sampled_from([1e30, 1e-3])), 'lr': 0.1},
            'dir_mode': draw(st.booleans()), 'program': prog,
            'param_dtype': draw(st.sampled_from(['float32', 'float32', 'bfloat16', 'float16'])),
            'heuristic': draw(st.sampled_from(['compute', 'compute', 'memory'])),
            'seq': draw(st.sampled_from([0, 0, 2])),
            'factor_dtype': draw(st.sampled_from([None, None, 'float32', 'bfloat16'])),
            'inv_dtype': draw(st.sampled_from([None, None, 'float64'])),
            'schedule': draw(st.lists(st.integers(0, 63), max_size=250)), 'flip': draw(st.booleans())}


class C03(Prop):
    id = 'C03'
    title = 'All ranks issue matching collectives and no rank ever stalls'
    rule = ('Hypothesis draws operation programs of 1-10 ops {train iteration (accumulation_steps micro-batches + gradient averaging + step), '
            'eval-mode pass, state_dict / memory_usage / reset_batch on all ranks or a drawn subset, a rank reloading its own state (on a subset only under MEM-OPT / W=1, where no collective is implied), LambdaParamScheduler.step() over a constant interval, checkpoint save+load into a fresh '
            'preconditioner on all ranks with compute_inverses / include_factors drawn subject to the documented requirement} for KAISA on '
            'W in {1,2,3,4,6,8} simulated ranks with every divisor as gradient-worker count, both methods, hook/no-hook, bucketed/unbucketed, '
            'symmetric/dense, constant or table-driven intervals incl. non-multiples, plus (kind "gpt") GPT-NeoX programs over pipe x data x model '
            'topologies with in-memory and directory checkpoints on DeepSpeed/Megatron doubles; every rank thread runs the whole program with no '
            'barrier in between and the rank interleaving + async buffer timing are drawn. Plus a systematic part (kind "preempt"): for four fixed small configurations every schedule that deviates from the default (lowest runnable rank first) at one position among the first 36 (quick) / one or two positions among the first 60 (thorough) schedule points is enumerated (bounded-preemption search). Oracle: the six monitors of vkit/simdist (mismatch of '
            'kind/shape/dtype/root, non-member communication, new_group order, deadlock, incomplete operation, exception on a valid program). '
            'Non-trivial: W >= 2, >= 2 groups carried traffic, and the program contains a non-inverse-update step, a load, an eval pass between '
            'train passes, or a subset-of-ranks query.')
    assumptions = ['vkit/simdist semantics (per-group issue-order matching, non-members get None) as checked against gloo',
                   'programs are valid by construction: loads at step boundaries, compute_inverses=False / include_factors=False only where the documentation allows it']
    examples = {'quick': 100, 'thorough': 600}
    shards = {'quick': 8, 'thorough': 16}
    shrink_budget_s = {'quick': 30.0, 'thorough': 180.0}
    required_labels = {'quick': ['nontrivial=True', 'has_load=True', 'subset_query=True', 'strategy=HYBRID', 'kind=gpt', 'kind=kaisa', 'kind=hashseed', 'has_sched=True', 'subset_reload=True'],
                       'thorough': ['nontrivial=True', 'has_load=True', 'subset_query=True', 'strategy=HYBRID', 'strategy=MEM', 'strategy=COMM']}

    enum_shards = {'quick': 4, 'thorough': 16}

    # -- bounded-preemption enumeration of schedules (systematic, complements the random schedules) -------------
    PREEMPT_CONFIGS = [
        # (W, k, method, cap, in_hook, fus, ius, program kinds)
        (2, 2, 'eigen', 25.0, True, 1, 2, ['train', 'train', 'load', 'train']),
        (4, 2, 'inverse', 0, False, 2, 1, ['train', 'state_dict:0', 'train', 'load', 'train']),
        (3, 1, 'eigen', 1e-5, True, 1, 3, ['train', 'eval', 'train', 'memory_usage:1', 'train']),
        (4, 4, 'eigen', 25.0, True, 1, 1, ['train', 'load', 'train']),
    ]

    def enumerate(self, tier, shard, nshards):
        if shard == 0:
            yield {'kind': 'hashseed'}
        K = 36 if tier == 'quick' else 60
        vals = (1, 2) if tier == 'quick' else (1, 2, 3)
        i = 0
        for ci in range(len(self.PREEMPT_CONFIGS)):
            devsets = [[]] + [[[p, v]] for p in range(K) for v in vals]
            if tier == 'thorough':
                devsets += [[[p, v], [q, w]] for p in range(0, K, 2) for q in range(p + 1, K, 3) for v in (1, 2) for w in (1, 3)]
            for devs in devsets:
                if i % nshards == shard:
                    yield {'kind': 'preempt', 'config': ci, 'devs': devs, 'K': K}
                i += 1

    def _hashseed(self, case):
        """Ranks are separate interpreter processes with independent string-hash seeds: the sequence of collectives a rank issues must
        not depend on PYTHONHASHSEED (two ranks iterating a set / dict of layer names in different orders would not match)."""
        import json
        import os
        import subprocess
        import sys
        here = os.path.dirname(os.path.dirname(os.path.abspath(__file__)))
        prog = (
            "import sys, json, warnings\n"
            "warnings.simplefilter('ignore')\n"
            f"sys.path.insert(0, {here!r})\n"
            "from vkit import runner\n"
            "runner.setup_paths(); runner._limit_threads()\n"
            "from vkit import kaisa\n"
            "out = []\n"
            "spec = {'seed': 4, 'input': {'in': 3, 'lead': []}, 'layers': [{'t': 'linear', 'in': 3, 'out': 4, 'bias': True, 'sub': False}, {'t': 'act', 'name': 'tanh'},"
            " {'t': 'linear', 'in': 4, 'out': 3, 'bias': False, 'sub': False}, {'t': 'act', 'name': 'tanh'}, {'t': 'linear', 'in': 3, 'out': 3, 'bias': True, 'sub': False},"
            " {'t': 'act', 'name': 'relu'}, {'t': 'linear', 'in': 3, 'out': 2, 'bias': True, 'sub': False}]}\n"
            "for W, k, method, cap, colocate in ((2, 2, 'eigen', 0, True), (4, 2, 'inverse', 25.0, False), (3, 1, 'eigen', 1e-5, True), (4, 4, 'eigen', 0, False)):\n"
            "    case = {'W': W, 'k': k, 'fraction': 'float', 'colocate': colocate, 'heuristic': 'compute', 'cap': cap, 'symmetry': method == 'inverse',\n"
            "            'method': method, 'prediv': False, 'spec': spec, 'in_hook': True, 'accum': 1, 'N': 2,\n"
            "            'hp': {'factor_update_steps': 1, 'inv_update_steps': 2, 'damping': 0.01, 'factor_decay': 0.9, 'kl_clip': 1e-3, 'lr': 0.1}}\n"
            "    program = [{'op': 'train', 'seed': 1}, {'op': 'train', 'seed': 2}, {'op': 'state_dict'}, {'op': 'load', 'compute_inverses': True},\n"
            "               {'op': 'train', 'seed': 3}, {'op': 'memory_usage'}, {'op': 'reload_live'}, {'op': 'train', 'seed': 4}]\n"
            "    res = kaisa.run_sim(case, program, [], False)\n"
            "    out.append([[[e['kind'], list(e['group']) if e.get('group') else None, e.get('numel'), e.get('root')] for e in res.trace[r] if e['kind'] != 'new_group']\n"
            "                for r in range(W)] + [[str(v) for v in res.violations]])\n"
            "print(json.dumps(out))\n"
        )
        outs = []
        for hs in ('0', '1', '987654'):
            env = dict(os.environ, PYTHONHASHSEED=hs, PYTHONWARNINGS='ignore')
            r = subprocess.run([sys.executable, '-c', prog], env=env, capture_output=True, text=True, timeout=600)
            if r.returncode != 0:
                raise RuntimeError('hashseed subprocess failed (harness): ' + r.stderr[-2000:])
            outs.append(r.stdout.strip().splitlines()[-1])
        labels = {'kind': 'hashseed', 'nontrivial': True}
        if len(set(outs)) != 1:
            a = json.loads(outs[0])
            b = json.loads(next(o for o in outs if o != outs[0]))
            ci = next(i for i in range(len(a)) if a[i] != b[i])
            rk = next(i for i in range(len(a[ci])) if a[ci][i] != b[ci][i])
            pos = next((i for i, (x, y) in enumerate(zip(a[ci][rk], b[ci][rk])) if x != y), min(len(a[ci][rk]), len(b[ci][rk])))
            return violation(f'the sequence of collectives issued by a rank depends on PYTHONHASHSEED (ranks are separate processes with independent hash '
                             f'seeds): configuration #{ci}, rank {rk}, position {pos}: {a[ci][rk][pos:pos + 2]} vs {b[ci][rk][pos:pos + 2]}',
                             'hashseed-dependent', labels=labels)
        return passed(True, labels)

    def _preempt(self, case):
        from vkit import kaisa
        W, k, method, cap, in_hook, fus, ius, kinds = self.PREEMPT_CONFIGS[case['config']]
        spec = {'seed': 4, 'input': {'in': 3, 'lead': []}, 'layers': [
            {'t': 'linear', 'in': 3, 'out': 4, 'bias': True, 'sub': False}, {'t': 'act', 'name': 'tanh'},
            {'t': 'linear', 'in': 4, 'out': 2, 'bias': False, 'sub': False}]}
        prog = []
        for n, kd in enumerate(kinds):
            name, _, arg = kd.partition(':')
            if name == 'train':
                prog.append({'op': 'train', 'seed': n})
            elif name == 'eval':
                prog.append({'op': 'eval', 'seed': n})
            elif name == 'load':
                prog.append({'op': 'load', 'compute_inverses': True, 'include_factors': True})
            else:
                prog.append({'op': name, 'ranks': [int(arg)]})
        kc = {'W': W, 'k': k, 'fraction': 'float', 'colocate': True, 'heuristic': 'compute', 'cap': cap, 'symmetry': method == 'inverse',
              'method': method, 'prediv': method == 'eigen', 'spec': spec, 'in_hook': in_hook, 'accum': 1, 'N': 2,
              'hp': {'factor_update_steps': fus, 'inv_update_steps': ius, 'damping': 0.01, 'factor_decay': 0.9, 'kl_clip': 1e-3, 'lr': 0.1}}
        sched = [0] * case['K']
        for p, v in case['devs']:
            sched[p] = v
        res = kaisa.run_sim(kc, prog, sched, False)
        labels = {'kind': 'preempt', 'W': W, 'ndev': len(case['devs'])}
        if res.timed_out:
            raise RuntimeError('simulation timed out (harness)')
        if not res.ok:
            v = res.violations[0]
            return violation(f'{v} :: bounded-preemption schedule {case["devs"]} on config {self.PREEMPT_CONFIGS[case["config"]]}', 'protocol:' + v.kind, labels=labels)
        labels['nontrivial'] = W >= 2 and res.groups_used >= 2
        return passed(labels['nontrivial'], labels, {'switches': res.switches})

    def strategy(self, tier):
        worlds = [1, 2, 2, 3, 4, 4, 6, 8] if tier == 'quick' else [1, 2, 3, 4, 4, 6, 8, 8, 12]
        return st.one_of(_kaisa_case(worlds), _kaisa_case(worlds), _gpt_case())

    def run_case(self, case):
        if case['kind'] == 'kaisa':
            return self._kaisa(case)
        if case['kind'] == 'preempt':
            return self._preempt(case)
        if case['kind'] == 'hashseed':
            return self._hashseed(case)
        return self._gpt(case)

    def _gpt(self, case):
        import os
        import shutil
        import tempfile
        from vkit import gptrun
        W = case['pipe'] * case['data'] * case['model']
        kinds = [o['op'] for o in case['program']]
        labels = {'kind': 'gpt', 'W': W, 'topo': f"{case['pipe']}x{case['data']}x{case['model']}", 'has_load': 'load' in kinds,
                  'dir_mode': case['dir_mode'], 'bucketed': case['cap'] > 0, 'len': len(kinds),
                  'gpt_param_dtype': case.get('param_dtype', 'float32')}
        tmp = tempfile.mkdtemp(prefix='c03_', dir='/dev/shm' if os.path.isdir('/dev/shm') else None) if case['dir_mode'] else None
        try:
            res = gptrun.run_gpt(dict(case, ckpt_dir=(os.path.join(tmp, 'f') if tmp else None)), case['program'], case['schedule'], case['flip'])
        finally:
            if tmp:
                shutil.rmtree(tmp, ignore_errors=True)
        if res.timed_out:
            raise RuntimeError('simulation timed out (harness)')
        if not res.ok:
            v = res.violations[0]
            where = f' during {res.trace[v.rank][-1].get("phase")}' if v.rank is not None and res.trace[v.rank] else ''
            return violation(f'{v}{where} :: GPT-NeoX (pipe,data,model)=({case["pipe"]},{case["data"]},{case["model"]}) program={case["program"]}',
                             'protocol:' + v.kind, labels=labels)
        nt = W >= 2 and res.groups_used >= 2
        labels['nontrivial'] = nt
        return passed(nt, labels, {'switches': res.switches})

    def _kaisa(self, case):
        from vkit import kaisa
        W = case['W']
        prog = case['program']
        strat = 'COMM' if case['k'] == W else 'MEM' if case['k'] == 1 else 'HYBRID'
        steps = 0
        non_refresh = False
        for o in prog:
            if o['op'] == 'train':
                if steps % _hp_at(case['hp']['inv_update_steps'], steps) != 0:
                    non_refresh = True
                steps += 1
        kinds = [o['op'] for o in prog]
        eval_between = any(k == 'eval' and 'train' in kinds[:i] and 'train' in kinds[i + 1:] for i, k in enumerate(kinds))
        subset = any(o.get('ranks') is not None and len(o['ranks']) < W for o in prog if o['op'] in ('state_dict', 'memory_usage', 'reset_batch'))
        has_load = 'load' in kinds
        labels = {'kind': 'kaisa', 'W': W, 'strategy': strat, 'method': case['method'], 'bucketed': case['cap'] > 0,
                  'symmetry': case['symmetry'], 'in_hook': case['in_hook'], 'has_load': has_load, 'subset_query': subset,
                  'has_sched': bool(case.get('scheduler')) and 'sched_step' in kinds,
                  'subset_reload': any(o['op'] == 'reload_live' and o.get('ranks') is not None and len(o['ranks']) < W for o in prog),
                  'eval_between': eval_between, 'non_refresh_step': non_refresh, 'len': len(prog),
                  'cast_mid_run': any(o['op'] == 'cast' and 'train' in kinds[:i] and 'train' in kinds[i + 1:] for i, o in enumerate(prog))}
        res = kaisa.run_sim(case, prog, case['schedule'], case['flip'])
        if res.timed_out:
            raise RuntimeError('simulation timed out (harness)')
        if not res.ok:
            v = res.violations[0]
            where = ''
            if v.rank is not None and res.trace[v.rank]:
                where = f' during {res.trace[v.rank][-1].get("phase")}'
            key = 'protocol:' + v.kind
            # region keys for recorded findings
            if has_load and strat == 'HYBRID' and any(o['op'] == 'load' and o['compute_inverses'] for o in prog) and 'load' in where:
                key = 'load-hybrid-foreign-group'
            return violation(f'{v}{where} :: W={W} k={case["k"]} program={prog}', key, labels=labels)
        nt = W >= 2 and res.groups_used >= 2 and (non_refresh or has_load or eval_between or subset)
        labels['nontrivial'] = nt
        return passed(nt, labels, {'switches': res.switches})

    def summarize(self, infos):
        return {'rank_switches_total': sum(i.get('switches', 0) for i in infos)}


PROP = C03()
