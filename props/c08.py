"""C08 - bucketed allreduce is equivalent to per-tensor allreduce (communicator level, simulated ranks)."""

from __future__ import annotations

from hypothesis import strategies as st

from vkit.runner import Prop, passed, violation

DT = ['float32', 'float32', 'float64', 'bfloat16', 'float16']
ESIZE = {'float32': 4, 'float64': 8, 'bfloat16': 2, 'float16': 2}


def blocks_of(W, kind, size):
    """Partition of range(W) into equal blocks: 'rows' = contiguous, 'cols' = strided."""
    n = W // size
    if kind == 'rows':
        return [list(range(i * size, (i + 1) * size)) for i in range(n)]
    return [list(range(i, W, n)) for i in range(n)]


def packed_numel(shape, symmetric):
    n = 1
    for s in shape:
        n *= s
    return shape[0] * (shape[0] + 1) // 2 if symmetric else n


@st.composite
def _case(draw):
    W = draw(st.sampled_from([2, 3, 4, 4, 6]))
    divs = [d for d in range(1, W + 1) if W % d == 0 and d < W]
    nparts = draw(st.integers(0, 2))
    parts = []
    for _ in range(nparts):
        parts.append({'kind': draw(st.sampled_from(['rows', 'cols'])), 'size': draw(st.sampled_from(divs))})
    # group ids: 0 = world, then the blocks of each partition in order
    ngroups = 1 + sum(W // p['size'] for p in parts)
    single_dtype = draw(st.sampled_from([None, None, 'float32', 'float64', 'bfloat16']))
    calls = []
    n = draw(st.integers(1, 14))
    for _ in range(n):
        if draw(st.integers(0, 6)) == 0:
            calls.append({'flush': True})
            continue
        sym = draw(st.sampled_from([False, False, True]))
        if sym:
            k = draw(st.integers(1, 6))
            shape = [k, k]
        else:
            shape = draw(st.lists(st.integers(1, 6), min_size=0, max_size=3))
            while packed_numel(shape, False) > 40:
                shape[-1] = max(1, shape[-1] // 2)
            if shape and draw(st.integers(0, 9)) == 0:
                shape[draw(st.integers(0, len(shape) - 1))] = 0          # a tensor without elements (0 bytes) is a valid tensor too
        calls.append({'group': draw(st.integers(0, ngroups - 1)), 'shape': shape,
                      'dtype': single_dtype or draw(st.sampled_from(DT)), 'average': draw(st.booleans()), 'symmetric': sym,
                      'transposed': (not sym) and len(shape) == 2 and draw(st.booleans())})
    sizes = sorted(packed_numel(c['shape'], c['symmetric']) * ESIZE[c['dtype']] for c in calls if 'shape' in c) or [4]
    sizes = [z for z in sizes if z > 0] or [4]
    cap = draw(st.sampled_from([max(1, sizes[0] - 1), sizes[0], sizes[len(sizes) // 2], sizes[-1], sizes[-1] + sizes[0],
                                sum(sizes) + 1, 25_000_000]))
    return {'W': W, 'parts': parts, 'calls': calls, 'cap_bytes': cap,
            # the tensors are handed over and the buckets flushed inside torch.inference_mode() (a validation pass of a model left in
            # train mode); the results are awaited after the block has been left
            'inference': draw(st.sampled_from([False, False, False, True])),
            'schedule': draw(st.lists(st.integers(0, 63), max_size=120)), 'flip': draw(st.booleans())}


def make_tensor(torch, rank, idx, call):
    dtype = getattr(torch, call['dtype'])
    shape = call['shape']
    n = 1
    for s in shape:
        n *= s
    if call['symmetric']:
        k = shape[0]
        i = torch.arange(k).view(-1, 1)
        j = torch.arange(k).view(1, -1)
        lo, hi = torch.minimum(i, j), torch.maximum(i, j)
        v = ((rank + 1) * 37 + idx * 11 + (lo * k + hi) * 3) % 61
    else:
        v = ((rank + 1) * 37 + idx * 11 + torch.arange(n) * 3) % 61
        v = v.reshape(shape)
    t = (v.to(torch.float64) / 8.0 - 3.0).to(dtype)
    if call.get('transposed'):
        t = t.t().contiguous().t()     # same values, non-contiguous layout
    return t


class C08(Prop):
    id = 'C08'
    title = 'Bucketed allreduce is equivalent to per-tensor allreduce'
    rule = ('Hypothesis draws W in {2,3,4,6}, 0-2 partitions of the world into equal blocks (contiguous "rows" or strided "cols", so '
            'distinct groups of equal size occur, disjoint and overlapping on a rank), a global list of 1-14 entries (group, shape 0-d..3-d '
            'with <= 40 elements, dtype in {float32,float64,bfloat16,float16} mixed or uniform, average, symmetric (square 2-d), transposed '
            'layout) with interleaved flushes and a final flush, a capacity chosen relative to the byte sizes in the list, and a rank schedule '
            'with async buffer timing. Each rank issues the entries whose group contains it. Tensors are position- and rank-revealing. Oracles: '
            '(a) same calls through the unbucketed allreduce of a second communicator: equal bits, shape, dtype; (b) the harness\'s own '
            'ascending-rank sum; (c) trace: per group the all-reduced element count equals the sum of packed tensor sizes, every all_reduce is '
            'on the requested group, none exceeds the capacity unless it carries a single tensor; (d) every future completes after the flush. '
            'Non-trivial: >= 2 tensors shared a bucket, or an oversized tensor occurred, or two distinct groups were used between flushes.')
    assumptions = ['vkit/simdist all_reduce semantics (ascending-rank summation in the tensor dtype); result comparisons are bit-exact',
                   'every rank issues flushes at the same logical positions of the global call list']
    examples = {'quick': 250, 'thorough': 1500}
    shards = {'quick': 8, 'thorough': 16}
    shrink_budget_s = {'quick': 20.0, 'thorough': 120.0}
    required_labels = {'quick': ['nontrivial=True', 'shared_bucket=True', 'oversized=True', 'equal_size_groups=True', 'mixed_dtype=True'],
                       'thorough': ['nontrivial=True', 'shared_bucket=True', 'oversized=True', 'equal_size_groups=True', 'mixed_dtype=True']}

    def strategy(self, tier):
        return _case()

    def run_case(self, case):
        import torch
        import torch.distributed as dist
        from vkit import simdist
        from kfac.distributed import TorchDistributedCommunicator

        W = case['W']
        cap_mb = (case['cap_bytes'] + 0.5) / 1e6
        group_ranks = [list(range(W))]
        for p in case['parts']:
            group_ranks.extend(blocks_of(W, p['kind'], p['size']))
        calls = case['calls'] + [{'flush': True}]

        def prog(rank):
            comm = TorchDistributedCommunicator(cap_mb)
            plain = TorchDistributedCommunicator(cap_mb)
            cap_seen = comm.bucket_cap_bytes
            groups = [None]
            for ranks in group_ranks[1:]:
                groups.append(dist.new_group(ranks))
            outs = {}
            simdist.set_phase('bucketed')
            import contextlib
            with (torch.inference_mode() if case.get('inference') else contextlib.nullcontext()):
                for i, c in enumerate(calls):
                    if c.get('flush'):
                        comm.flush_allreduce_buckets()
                        continue
                    if rank not in group_ranks[c['group']]:
                        continue
                    t = make_tensor(torch, rank, i, c)
                    outs[i] = comm.allreduce_bucketed(t, average=c['average'], group=groups[c['group']], symmetric=c['symmetric'])
            got = {}
            for i, f in outs.items():
                got[i] = f.wait() if not isinstance(f, torch.Tensor) else f
            open_buckets = [k for k, b in comm._allreduce_buckets.items() if b is not None] if hasattr(comm, '_allreduce_buckets') else []
            simdist.set_phase('plain')
            ref = {}
            for i, c in enumerate(calls):
                if c.get('flush') or rank not in group_ranks[c['group']]:
                    continue
                t = make_tensor(torch, rank, i, c)
                f = plain.allreduce(t, average=c['average'], group=groups[c['group']], symmetric=c['symmetric'])
                ref[i] = f.wait() if not isinstance(f, torch.Tensor) else f
            return {'got': got, 'ref': ref, 'open': len(open_buckets), 'cap_seen': cap_seen}

        res = simdist.Sim(W, case['schedule'], flip_timing=case['flip']).run(prog, timeout=60)
        if res.timed_out:
            raise RuntimeError('simulation timed out (harness)')
        # classification (independent of the outcome)
        labels = self._classify(case, group_ranks)
        region = None   # F4 / F10 are fixed: no region is attributed to a known finding any more
        if not res.ok:
            v = res.violations[0]
            key = 'protocol:' + v.kind
            return violation(f'protocol violation {v} (region={region})', region or key, labels=labels)
        for rank in range(W):
            out = res.results[rank]
            if out['cap_seen'] != case['cap_bytes']:
                return violation(f'rank {rank}: communicator configured with {cap_mb!r} MB reports bucket_cap_bytes={out["cap_seen"]}, expected {case["cap_bytes"]}',
                                 'capacity-conversion', labels=labels)
            if out['open']:
                return violation(f'rank {rank}: {out["open"]} bucket(s) still open after the final flush', 'open-after-flush', labels=labels)
            for i, c in enumerate(calls):
                if c.get('flush') or rank not in group_ranks[c['group']]:
                    continue
                members = group_ranks[c['group']]
                acc = make_tensor(torch, members[0], i, c).contiguous().clone()
                for m in members[1:]:
                    acc += make_tensor(torch, m, i, c).contiguous()
                if c['average'] and len(members) > 1:
                    acc = (1 / len(members)) * acc
                g, r = out['got'][i], out['ref'][i]
                desc = f'rank {rank} call {i} {c} in group {members} (cap {case["cap_bytes"]} B)'
                for what, val, key in (('bucketed', g, 'bucketed-value'), ('unbucketed', r, 'unbucketed-value')):
                    if tuple(val.shape) != tuple(acc.shape):
                        return violation(f'{desc}: {what} result has shape {tuple(val.shape)}, expected {tuple(acc.shape)}', region or key + '-shape', labels=labels)
                    if val.dtype != acc.dtype:
                        return violation(f'{desc}: {what} result has dtype {val.dtype}, expected {acc.dtype}',
                                         region if (region == 'mixed-dtype-bucket' and what == 'bucketed') else key + '-dtype', labels=labels)
                    if not torch.equal(val, acc):
                        return violation(f'{desc}: {what} result {val.flatten()[:6].tolist()} != sum over the group {acc.flatten()[:6].tolist()}',
                                         region if what == 'bucketed' and region else key, labels=labels)
        # (c) trace accounting for the bucketed phase
        for rank in range(W):
            per_group = {}
            for ev in res.trace[rank]:
                if ev.get('phase') != 'bucketed' or ev['kind'] != 'all_reduce':
                    continue
                per_group.setdefault(ev['group'], []).append(ev)
            exp = {}
            singles = {}
            for i, c in enumerate(calls):
                if c.get('flush') or rank not in group_ranks[c['group']] or len(group_ranks[c['group']]) == 1:
                    continue
                key = tuple(group_ranks[c['group']])
                pn = packed_numel(c['shape'], c['symmetric'])
                exp[key] = exp.get(key, 0) + pn
                singles.setdefault(key, set()).add(pn * ESIZE[c['dtype']])
            got = {k: sum(e['numel'] for e in v) for k, v in per_group.items()}
            if got != exp:
                return violation(f'rank {rank}: all-reduced element counts per group {got} != packed tensor sizes per requested group {exp}',
                                 region or 'trace-accounting', labels=labels)
            for k, evs in per_group.items():
                for e in evs:
                    nbytes = e['numel'] * {'torch.float32': 4, 'torch.float64': 8, 'torch.bfloat16': 2, 'torch.float16': 2}[e['dtype']]
                    if nbytes > case['cap_bytes'] and nbytes not in singles.get(k, ()):
                        return violation(f'rank {rank}: a fused all_reduce of {nbytes} B exceeds the capacity {case["cap_bytes"]} B and is not a single tensor',
                                         region or 'capacity', labels=labels)
        nt = labels['shared_bucket'] or labels['oversized'] or labels['two_groups_in_cycle']
        labels['nontrivial'] = nt
        return passed(nt, labels)

    def _classify(self, case, group_ranks):
        cap = case['cap_bytes']
        cycles, cur = [], []
        for c in case['calls'] + [{'flush': True}]:
            if c.get('flush'):
                cycles.append(cur)
                cur = []
            else:
                cur.append(c)
        shared = oversized = two = eq = mixed = False
        for cyc in cycles:
            live = [c for c in cyc if len(group_ranks[c['group']]) > 1]
            gids = {c['group'] for c in live}
            two |= len(gids) >= 2
            by_size = {}
            for gid in gids:
                by_size.setdefault(len(group_ranks[gid]), set()).add(gid)
            eq |= any(len(v) >= 2 for v in by_size.values())
            for gid in gids:
                seq = [c for c in live if c['group'] == gid]
                size = 0
                dts = set()
                for c in seq:
                    b = packed_numel(c['shape'], c['symmetric']) * ESIZE[c['dtype']]
                    oversized |= b > cap
                    if size and size + b <= cap and dts == {c['dtype']}:
                        shared = True
                        size += b
                    else:
                        mixed |= bool(size and size + b <= cap)   # a dtype change (not the capacity) closed the bucket
                        size = b
                        dts = {c['dtype']}
        return {'W': case['W'], 'shared_bucket': shared, 'oversized': oversized, 'two_groups_in_cycle': two,
                'equal_size_groups': eq, 'equal_size_groups_in_cycle': eq, 'mixed_dtype': mixed, 'mixed_dtype_in_cycle': mixed,
                'nparts': len(case['parts']), 'inference_mode': bool(case.get('inference'))}


PROP = C08()
