"""C19 - hyper-parameter schedulers apply multiplicative factors deterministically."""

from __future__ import annotations

import functools
import warnings

from hypothesis import strategies as st

from vkit.runner import Prop, passed, violation

PARAMS = ['factor_update_steps', 'inv_update_steps', 'damping', 'factor_decay', 'kl_clip', 'lr']
INT_PARAMS = {'factor_update_steps', 'inv_update_steps'}
# every parameter gets its own pool of factors so that cross-wiring is visible
FACTOR_POOL = {
    'factor_update_steps': [1, 2, 3, 0.5, 1.5, 2.5],
    'inv_update_steps': [1, 5, 7, 0.75, 1.25, 0.5],
    'damping': [0.5, 2.0, 11.0, 0.125, 1.0],
    'factor_decay': [0.25, 0.875, 1.0, 0.5, 0.96875],
    'kl_clip': [13.0, 0.0625, 4.0, 1.0, 0.5],
    'lr': [17.0, 0.03125, 8.0, 1.0, 0.25],
}
INIT_POOL = {
    'factor_update_steps': [1, 2, 3, 10, 64],
    'inv_update_steps': [1, 4, 6, 10, 128],
    'damping': [0.001, 0.003, 1.0, 0.5, 1, 2],
    'factor_decay': [0.95, 0.5, 1.0, 0.1, 1],
    'kl_clip': [0.001, 0.01, 2.0, 1, 3],
    'lr': [0.1, 0.0, 1.0, 0.05, 1, 0, 3],
}
EXP_CAPS = [0.95, 1.0, 0.5, 2.0, 0.999, 1e-3, 0.75, 1.5]


@st.composite
def _sched_case(draw):
    init = {p: draw(st.sampled_from(INIT_POOL[p])) for p in PARAMS}
    scheduled = draw(st.lists(st.sampled_from(PARAMS), unique=True, max_size=6))
    # usually disjoint from scheduled (valid construction); sometimes overlapping (must be refused)
    overlap = draw(st.sampled_from([False, False, False, True]))
    pool = PARAMS if overlap else [p for p in PARAMS if p not in scheduled]
    callables = draw(st.lists(st.sampled_from(pool), unique=True, max_size=len(pool))) if pool else []
    tables = {p: draw(st.lists(st.sampled_from(FACTOR_POOL[p]), min_size=1, max_size=5)) for p in scheduled}
    step_op = st.fixed_dictionaries({'op': st.just('step'), 'k': st.one_of(st.none(), st.integers(0, 12), st.integers(0, 10 ** 6))})
    set_op = st.fixed_dictionaries({'op': st.just('set_steps'), 'k': st.integers(0, 50)})
    # a step during which the factor function of one scheduled parameter raises (the exception must reach the caller; what the other
    # parameters look like afterwards is not specified, so the model re-reads them; LATER steps must again apply exactly one factor each)
    fail_op = st.fixed_dictionaries({'op': st.just('step_raises'), 'k': st.one_of(st.none(), st.integers(0, 12)), 'who': st.integers(0, 5)})
    ops = draw(st.lists(st.one_of(step_op, step_op, step_op, step_op, set_op, fail_op), min_size=1, max_size=12))
    # what kind of Python callable the callable hyper-parameters / the factor functions are (anything callable is documented to work)
    ckind = draw(st.sampled_from(['function', 'function', 'partial', 'method', 'object']))
    lkind = draw(st.sampled_from(['function', 'function', 'partial', 'method', 'object']))
    # a callable hyper-parameter is a function of the preconditioner's step count: value table indexed by steps (length 1 = constant)
    ctables = {p: draw(st.lists(st.sampled_from(INIT_POOL[p]), min_size=1, max_size=3)) for p in callables}
    return {'kind': 'sched', 'init': init, 'scheduled': sorted(scheduled), 'callables': sorted(callables),
            'tables': tables, 'ops': ops, 'callable_kind': ckind, 'lambda_kind': lkind, 'ctables': ctables}


@st.composite
def _exp_case(draw):
    cap = draw(st.one_of(
        st.floats(min_value=1e-6, max_value=2.0, allow_nan=False),
        st.sampled_from(EXP_CAPS),
        st.floats(min_value=-1.0, max_value=0.0),
        st.just(0),
    ))
    ks = draw(st.lists(st.one_of(st.integers(-3, 40), st.integers(0, 10 ** 12)), min_size=1, max_size=8))
    return {'kind': 'exp', 'cap': cap, 'ks': ks}


class C19(Prop):
    id = 'C19'
    title = 'Hyperparameter schedulers apply multiplicative factors deterministically'
    rule = ('(a) Hypothesis draws a preconditioner configuration (six constant parameters, a subset scheduled each with its '
            'own lookup table of factors drawn from per-parameter pools, a subset of other parameters given as callables, '
            'sometimes overlapping so that construction must be refused - the preconditioner must then be unchanged and a valid scheduler built on it afterwards is driven through the program) and a program of 1-12 operations {scheduler.step(), '
            'scheduler.step(k), set preconditioner steps to k via load_state_dict}; a dictionary model is compared exactly '
            'after every operation. Non-trivial: >=2 scheduler steps that used different factors for some parameter, >=1 '
            'explicit step value different from the preconditioner step count, and a proper non-empty subset scheduled. '
            '(b) exp_decay_factor_averaging: exhaustive k in 0..100000 for 8 caps (chunks of 10000, each chunk one case; '
            'formula, monotonicity and range checked for every k) plus drawn caps (incl. invalid <= 0) and ks (incl. '
            'negative, up to 1e12); a chunk/drawn case is non-trivial when it contains k on both sides of the cap crossover '
            'or an input that must raise.')
    assumptions = ['scheduler compared through the public properties of the preconditioner',
                   'the preconditioner step count is set with load_state_dict({"steps": k}, compute_inverses=False)']
    examples = {'quick': 700, 'thorough': 3000}
    shards = {'quick': 8, 'thorough': 16}
    enum_shards = {'quick': 2, 'thorough': 16}
    required_labels = {'quick': ['kind=sched', 'kind=exp', 'refused=True', 'nontrivial=True', 'failed_step=True', 'callable_kind=partial', 'callable_kind=method', 'callable_kind=object'],
                       'thorough': ['kind=sched', 'kind=exp', 'refused=True', 'nontrivial=True', 'failed_step=True']}

    fuzz = {'thorough': {'runs': 20000, 'max_time': 60, 'procs': 4}}

    def strategy(self, tier):
        return st.one_of(_sched_case(), _sched_case(), _sched_case(), _exp_case())

    def enumerate(self, tier, shard, nshards):
        hi = 100000 if tier == 'quick' else 1000000
        chunk = 10000
        i = 0
        for cap in EXP_CAPS:
            for lo in range(0, hi, chunk):
                if i % nshards == shard:
                    yield {'kind': 'exp_range', 'cap': cap, 'lo': lo, 'hi': min(hi, lo + chunk)}
                i += 1

    # ------------------------------------------------------------------
    def run_case(self, case):
        if case['kind'] == 'sched':
            return self._run_sched(case)
        if case['kind'] == 'exp':
            return self._run_exp(case)
        return self._run_exp_range(case)

    def _run_exp_range(self, case):
        from kfac.hyperparams import exp_decay_factor_averaging
        cap = case['cap']
        f = exp_decay_factor_averaging(cap)
        prev = None
        crossed = [False, False]
        for k in range(case['lo'], case['hi'] + 1):
            got = f(k)
            raw = 1 - 1 / max(k, 1)
            exp = min(raw, cap)
            crossed[raw < cap] = True
            if got != exp:
                return violation(f'exp_decay_factor_averaging({cap})({k}) = {got!r}, expected {exp!r}', 'exp-value')
            if not (0 <= got <= cap):
                return violation(f'exp_decay_factor_averaging({cap})({k}) = {got!r} outside [0, {cap}]', 'exp-range')
            if prev is not None and got < prev:
                return violation(f'exp_decay_factor_averaging({cap}) decreases at k={k}: {prev!r} -> {got!r}', 'exp-monotone')
            prev = got
        return passed(all(crossed), {'kind': 'exp', 'nontrivial': all(crossed)})

    def _run_exp(self, case):
        from kfac.hyperparams import exp_decay_factor_averaging
        cap, ks = case['cap'], case['ks']
        if cap <= 0:
            try:
                exp_decay_factor_averaging(cap)
            except ValueError:
                return passed(True, {'kind': 'exp', 'nontrivial': True, 'exp_invalid_cap': True})
            return violation(f'exp_decay_factor_averaging({cap!r}) did not raise ValueError', 'exp-invalid-cap')
        f = exp_decay_factor_averaging(cap)
        vals = []
        nt = False
        for k in ks:
            if k < 0:
                nt = True
                try:
                    f(k)
                except ValueError:
                    continue
                return violation(f'exp_decay_factor_averaging({cap})({k}) did not raise ValueError', 'exp-negative-step')
            got = f(k)
            exp = min(1 - 1 / max(k, 1), cap)
            if got != exp:
                return violation(f'exp_decay_factor_averaging({cap})({k}) = {got!r}, expected {exp!r}', 'exp-value')
            if not (0 <= got <= cap):
                return violation(f'exp_decay_factor_averaging({cap})({k}) = {got!r} outside [0, {cap}]', 'exp-range')
            vals.append((k, got))
        vals.sort()
        for (k1, v1), (k2, v2) in zip(vals, vals[1:]):
            if v2 < v1:
                return violation(f'exp_decay_factor_averaging({cap}) not monotone: f({k1})={v1!r} > f({k2})={v2!r}', 'exp-monotone')
        nt = nt or (len({v for _, v in vals}) >= 2 and any(v == cap for _, v in vals))
        return passed(nt, {'kind': 'exp', 'nontrivial': nt})

    def _run_sched(self, case):
        import torch
        from kfac.preconditioner import KFACPreconditioner
        from kfac.scheduler import LambdaParamScheduler

        init, tables = case['init'], case['tables']
        scheduled, callables = case['scheduled'], case['callables']

        def as_kind(fn, kind):
            # the same behaviour as a plain function, a functools.partial, a bound method or an object with __call__
            if kind == 'partial':
                return functools.partial(lambda _pad, step: fn(step), None)
            if kind == 'method':
                class Holder:
                    def value(self, step):
                        return fn(step)
                return Holder().value
            if kind == 'object':
                class Obj:
                    def __call__(self, step):
                        return fn(step)
                return Obj()
            return fn

        ctables = {p: case.get('ctables', {}).get(p, [init[p]]) for p in callables}

        def const_fn(p):
            t = ctables[p]
            return as_kind(lambda step: t[step % len(t)], case.get('callable_kind', 'function'))

        kwargs = {}
        for p in PARAMS:
            kwargs[p] = const_fn(p) if p in callables else init[p]
        model = torch.nn.Linear(1, 1)
        with warnings.catch_warnings():
            warnings.simplefilter('ignore')
            pre = KFACPreconditioner(model, **kwargs)

        calls: dict[str, list[int]] = {p: [] for p in scheduled}
        failing = {'who': None}

        def table_fn(p):
            t = tables[p]

            def fn(step):
                calls[p].append(step)
                if failing['who'] == p:
                    raise RuntimeError('factor function failed (injected by the harness)')
                return t[step % len(t)]
            return as_kind(fn, case.get('lambda_kind', 'function'))

        lambdas = {p + '_lambda': table_fn(p) for p in scheduled}
        must_refuse = sorted(set(scheduled) & set(callables))
        labels = {'kind': 'sched', 'refused': bool(must_refuse), 'n_sched': len(scheduled), 'callable_kind': case.get('callable_kind', 'function') if callables else '-',
                  'varying_callable': any(len(set(t)) > 1 for t in ctables.values())}
        try:
            sched = LambdaParamScheduler(pre, **lambdas)
        except ValueError:
            if not must_refuse:
                return violation(f'construction refused although no scheduled parameter ({scheduled}) is a callable ({callables})', 'refused-valid')
            # the refused construction must have left the preconditioner alone: same values, and a scheduler over the
            # remaining (non-callable) parameters is then built on the SAME preconditioner and driven through the program
            for p in PARAMS:
                got = getattr(pre, p)
                was = ctables[p][0] if p in callables else init[p]       # the preconditioner is at step 0 here
                if got != was or type(got) is not type(was):
                    return violation(f'a refused scheduler construction changed {p} to {got!r} (was {was!r})', 'refusal-side-effect')
            scheduled = [p for p in scheduled if p not in callables]
            lambdas = {p + '_lambda': table_fn(p) for p in scheduled}
            for p in calls:
                calls[p].clear()
            try:
                sched = LambdaParamScheduler(pre, **lambdas)
            except ValueError:
                return violation(f'after a refused construction a valid one over {scheduled} (callables: {callables}) was refused too', 'refused-valid')
            must_refuse = []
            labels['continued_after_refusal'] = True
        if must_refuse:
            return violation(f'scheduler accepted lambdas for parameters that are already callables: {must_refuse}', 'accepted-callable')

        model_vals = dict(init)
        model_steps = 0
        used_factors = {p: set() for p in scheduled}
        explicit_diff = False
        nsteps = 0
        for idx, op in enumerate(case['ops']):
            if op['op'] == 'step_raises':
                if not scheduled:
                    continue
                failing['who'] = scheduled[op['who'] % len(scheduled)]
                try:
                    sched.step() if op['k'] is None else sched.step(op['k'])
                except RuntimeError as e:
                    if 'injected by the harness' not in str(e):
                        return violation(f'op {idx}: step() raised {type(e).__name__}: {e}', 'exception')
                else:
                    return violation(f'op {idx}: the exception raised by the factor function of {failing["who"]} did not reach the caller', 'exception-swallowed')
                finally:
                    failing['who'] = None
                for p in PARAMS:                      # unspecified after a failed step: adopt what is there
                    if p not in callables:
                        model_vals[p] = getattr(pre, p)
                labels['failed_step'] = True
                continue
            if op['op'] == 'set_steps':
                with warnings.catch_warnings():
                    warnings.simplefilter('ignore')
                    pre.load_state_dict({'steps': op['k']}, compute_inverses=False)
                model_steps = op['k']
                if pre.steps != model_steps:
                    return violation(f'op {idx}: steps not restored', 'steps')
            else:
                k = op['k']
                for p in scheduled:
                    calls[p].clear()
                if k is None:
                    sched.step()
                else:
                    sched.step(k)
                    if k != model_steps:
                        explicit_diff = True
                used = model_steps if k is None else k
                nsteps += 1
                for p in scheduled:
                    if calls[p] != [used]:
                        return violation(f'op {idx}: factor function of {p} was called with {calls[p]}, expected exactly [{used}] '
                                         f'(preconditioner steps={model_steps}, explicit step={k})', 'step-argument')
                    fac = tables[p][used % len(tables[p])]
                    used_factors[p].add(fac)
                    model_vals[p] = int(model_vals[p] * fac) if p in INT_PARAMS else model_vals[p] * fac
            for p in PARAMS:
                got = getattr(pre, p)
                exp = ctables[p][model_steps % len(ctables[p])] if p in callables else model_vals[p]
                if got != exp or type(got) is not type(exp):
                    return violation(f'op {idx} ({op}): {p} = {got!r}, expected {exp!r}; scheduled={scheduled} tables={tables}', 'param-value')
            if pre.steps != model_steps:
                return violation(f'op {idx}: scheduler changed the preconditioner step count to {pre.steps}', 'steps')
        nt = (nsteps >= 2 and any(len(s) >= 2 for s in used_factors.values()) and explicit_diff
              and 0 < len(scheduled) < len(PARAMS)) or bool(labels.get('continued_after_refusal'))
        labels['nontrivial'] = nt
        return passed(nt, labels)


PROP = C19()
