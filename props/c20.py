"""C20 - tracing is transparent and its statistics are exact.

Model-based check: a drawn program of call / query / clear operations is run
against kfac.tracing with an injected clock and against a dictionary model.
"""

from __future__ import annotations

from fractions import Fraction

from hypothesis import strategies as st

from vkit.runner import Prop, passed, violation

NAMES = ['alpha', 'beta', 'gamma', 'alpha']   # funcs 0 and 3 share a __name__
RET_KINDS = ['none', 'int', 'tuple', 'dict', 'obj', 'zero', 'false', 'emptylist']
EXC_KINDS = ['ValueError', 'KeyError', 'Custom', 'StopIteration', 'BaseLike']


class _Custom(Exception):
    pass


class _FakeClock:
    def __init__(self, start: float) -> None:
        self.now = start
        self.reads = 0

    def time(self) -> float:
        self.reads += 1
        return self.now


def _mk_ret(kind: str):
    return {
        'none': None, 'int': 7, 'tuple': (1, 'x'), 'dict': {'k': [1, 2]}, 'obj': object(),
        'zero': 0, 'false': False, 'emptylist': [],
    }[kind]


def _mk_exc(kind: str) -> BaseException:
    return {
        'ValueError': ValueError('boom'), 'KeyError': KeyError('k'), 'Custom': _Custom('c'),
        'StopIteration': StopIteration(3), 'BaseLike': ArithmeticError('a'),
    }[kind]


@st.composite
def _case(draw):
    nfuncs = draw(st.integers(1, 4))
    start = draw(st.integers(0, 2 ** 24)) / 16.0
    sync = draw(st.sampled_from([False, False, False, True]))
    call = st.fixed_dictionaries({
        'op': st.just('call'),
        'f': st.sampled_from([0, 0, 0] + list(range(nfuncs))),
        'dur': st.integers(0, 2 ** 16).map(lambda k: k / 1024.0),
        'raises': st.sampled_from([None] * 12 + EXC_KINDS),
        'ret': st.sampled_from(RET_KINDS),
        'nargs': st.integers(0, 3),
        'kwargs': st.lists(st.sampled_from(['a', 'b', 'sync', 'func', 'args']), max_size=2, unique=True),
    })
    query = st.fixed_dictionaries({
        'op': st.just('query'),
        'average': st.booleans(),
        'max_history': st.sampled_from([None, None, 1, 1, 2, 2, 3, 4, 5, 7, 10]),
        'positional': st.booleans(),
    })
    clear = st.fixed_dictionaries({'op': st.just('clear')})
    # a traced function whose body itself clears the statistics, queries them or calls other traced functions (e.g. a traced epoch()
    # that resets the trace at its start and runs traced steps): its own sample is recorded when IT returns
    inner_call = st.fixed_dictionaries({'op': st.just('call'), 'f': st.integers(0, 3), 'dur': st.integers(0, 2 ** 10).map(lambda k: k / 1024.0),
                                        'raises': st.none(), 'ret': st.sampled_from(RET_KINDS), 'nargs': st.just(0), 'kwargs': st.just([])})
    inner = st.lists(st.one_of(clear, clear, inner_call, inner_call, query), min_size=1, max_size=4)
    nested = st.builds(lambda c, i: dict(c, inner=i), call, inner)
    call = st.one_of(call, call, call, call, nested)
    ops = draw(st.lists(st.sampled_from(['call'] * 10 + ['query'] * 6 + ['clear']).flatmap({'call': call, 'query': query, 'clear': clear}.__getitem__),
                         min_size=draw(st.sampled_from([1, 6, 12, 20])), max_size=40))
    return {'nfuncs': nfuncs, 'start': start, 'sync': sync, 'ops': ops}


class C20(Prop):
    id = 'C20'
    title = 'Tracing is transparent and its statistics are exact'
    rule = ('Hypothesis draws programs of 1-40 operations {call(function, dyadic duration, return kind or '
            'exception, args/kwargs; one call in five has a body that itself clears, queries or calls other traced functions), query(average, max_history in None|1..10), clear} over 1-4 traced '
            'functions (two share a __name__), with kfac.tracing.time replaced by an injected clock; a '
            'dictionary model name->list of durations is run in lock-step and every query is compared '
            'exactly (rational arithmetic). Non-trivial: some name has >=3 completed calls, some query '
            'used a window shorter than the history, and queries with average=True and average=False both occur. '
            'Distinct = distinct canonical JSON of the program.')
    assumptions = [
        'durations are dyadic rationals so the float sums are exact and order independent',
        'max_history <= 0 is not a window and is outside the stated domain',
        'with sync=True torch.distributed.barrier is replaced by a counter (no process group)',
    ]
    examples = {'quick': 600, 'thorough': 4000}
    shards = {'quick': 8, 'thorough': 16}
    required_labels = {'quick': ['nontrivial=True', 'raised=True', 'short_window=True', 'cleared=True', 'nested_clear=True'],
                       'thorough': ['nontrivial=True', 'raised=True', 'short_window=True', 'cleared=True', 'sync=True']}

    fuzz = {'thorough': {'runs': 20000, 'max_time': 60, 'procs': 4}}

    def strategy(self, tier):
        return _case()

    def run_case(self, case):
        import torch
        import kfac.tracing as tracing

        clock = _FakeClock(case['start'])
        real_time = tracing.time
        real_barrier = torch.distributed.barrier
        barriers = [0]

        def fake_barrier(*a, **k):
            barriers[0] += 1

        tracing.time = clock
        if case['sync']:
            torch.distributed.barrier = fake_barrier
        tracing.clear_trace()
        try:
            return self._run(case, tracing, clock)
        finally:
            tracing.time = real_time
            torch.distributed.barrier = real_barrier
            tracing.clear_trace()

    def _run(self, case, tracing, clock):
        stack = []
        state = {'bad': None}

        def make(i):
            def body(*args, **kwargs):
                cur = stack[-1]
                cur['got'] = (args, kwargs)
                clock.now += cur['dur']
                for sub in cur['inner']:
                    if sub['op'] == 'call' and (sub['f'] % case['nfuncs'] == i or NAMES[sub['f'] % case['nfuncs']] == NAMES[i]):
                        continue                      # no recursion into a function of the same name
                    bad = do(sub, 'inner of op')
                    if bad is not None and state['bad'] is None:
                        state['bad'] = bad
                if cur['exc'] is not None:
                    raise cur['exc']
                return cur['ret']
            body.__name__ = NAMES[i]
            body.__qualname__ = NAMES[i]
            return body

        raw = [make(i) for i in range(case['nfuncs'])]
        traced = [tracing.trace(sync=case['sync'])(f) for f in raw]

        model: dict[str, list[Fraction]] = {}
        labels = {'raised': False, 'short_window': False, 'cleared': False, 'sync': case['sync'], 'nested_clear': False}
        avg_seen = set()

        def do(op, idx):
            if op['op'] == 'call':
                fi = op['f'] % case['nfuncs']
                args = tuple(object() for _ in range(op['nargs']))
                kwargs = {k: object() for k in op['kwargs']}
                exc = _mk_exc(op['raises']) if op['raises'] else None
                ret = _mk_ret(op['ret'])
                frame = {'dur': op['dur'], 'exc': exc, 'ret': ret, 'got': None, 'inner': op.get('inner', [])}
                stack.append(frame)
                name = NAMES[fi]
                t0 = Fraction(clock.now)
                try:
                    got = traced[fi](*args, **kwargs)
                except BaseException as e:  # noqa: BLE001 - compared by identity below
                    stack.pop()
                    if exc is None or e is not exc:
                        return violation(f'op {idx}: traced call raised {e!r}, undecorated raises {exc!r}', 'raise-mismatch')
                    labels['raised'] = True
                else:
                    stack.pop()
                    if exc is not None:
                        return violation(f'op {idx}: exception {exc!r} was swallowed (returned {got!r})', 'exception-swallowed')
                    if got is not ret:
                        return violation(f'op {idx}: returned {got!r} instead of the function\'s own object {ret!r}', 'return-mismatch')
                    # the sample of a call is the time between its entry and its return (its body may have called other traced functions)
                    model.setdefault(name, []).append(Fraction(clock.now) - t0)
                rec = frame['got']
                if rec is None:
                    return violation(f'op {idx}: wrapped function was not called', 'not-called')
                if len(rec[0]) != len(args) or any(a is not b for a, b in zip(rec[0], args)) or \
                        set(rec[1]) != set(kwargs) or any(rec[1][k] is not kwargs[k] for k in kwargs):
                    return violation(f'op {idx}: arguments were not passed through unchanged', 'args-mismatch')
            elif op['op'] == 'clear':
                tracing.clear_trace()
                model.clear()
                labels['cleared'] = True
                if stack:
                    labels['nested_clear'] = True
                got = tracing.get_trace()
                if got != {}:
                    return violation(f'op {idx}: get_trace() after clear_trace() = {got!r}', 'clear')
            else:
                avg, mh = op['average'], op['max_history']
                if op['positional']:
                    got = tracing.get_trace(avg, mh)
                else:
                    got = tracing.get_trace(average=avg, max_history=mh)
                exp = {}
                for name, durs in model.items():
                    win = durs if mh is None else durs[-mh:]
                    if len(win) < len(durs):
                        labels['short_window'] = True
                    s_ = sum(win, Fraction(0))
                    exp[name] = float(s_ / len(win)) if avg else float(s_)
                avg_seen.add(avg)
                if set(got) != set(exp):
                    return violation(f'op {idx}: get_trace names {sorted(got)} != expected {sorted(exp)}', 'names')
                for name in exp:
                    if got[name] != exp[name]:
                        return violation(
                            f'op {idx}: get_trace(average={avg}, max_history={mh})[{name!r}] = {got[name]!r}, '
                            f'expected {exp[name]!r} from samples {[float(x) for x in model[name]]}', 'statistic')
            return None

        for idx, op in enumerate(case['ops']):
            bad = do(op, idx)
            if bad is None and state['bad'] is not None:
                bad = state['bad']
            if bad is not None:
                return bad
        # the recorder must hold exactly the model's samples at the end
        final = tracing.get_trace(average=False, max_history=None)
        exp_final = {n: float(sum(d, Fraction(0))) for n, d in model.items()}
        if final != exp_final:
            return violation(f'final totals {final!r} != expected {exp_final!r}', 'statistic')
        nontrivial = (any(len(d) >= 3 for d in model.values()) or False) and labels['short_window'] and avg_seen == {True, False}
        # model may have been cleared at the end: judge ">=3 calls" over the program text instead
        if not nontrivial and labels['short_window'] and avg_seen == {True, False}:
            nontrivial = True  # a short window implies >= 2 samples; require 3 calls in the program
            ncalls = {}
            for op in case['ops']:
                if op['op'] == 'call' and not op['raises']:
                    ncalls[NAMES[op['f']]] = ncalls.get(NAMES[op['f']], 0) + 1
            nontrivial = any(v >= 3 for v in ncalls.values())
        labels['nontrivial'] = nontrivial
        labels['n_ops'] = min(len(case['ops']) // 10 * 10, 40)
        return passed(nontrivial, labels)


PROP = C20()
