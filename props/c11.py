"""C11 - model-parallel sharding is transparent to GPT-NeoX preconditioning (differential vs the unsharded layers)."""

from __future__ import annotations

from hypothesis import strategies as st

from vkit.runner import Prop, passed, violation


@st.composite
def _case(draw, thorough):
    mp = draw(st.sampled_from([1, 2, 2, 2, 3, 4] if thorough else [1, 2, 2, 2, 3]))
    dp = draw(st.sampled_from([1, 1, 2, 2, 3] if thorough else [1, 2, 2]))
    f = mp * draw(st.integers(1, 3))
    h = draw(st.integers(1, 5))
    blocks = draw(st.sampled_from([1, 1, 2]))
    clip = draw(st.sampled_from(['off', 'off', 'active']))
    pp = draw(st.sampled_from([1, 1, 1, 2]))
    if pp * dp * mp > 12:
        pp = 1
    accum = draw(st.sampled_from([1, 1, 2, 3]))
    # micro-batches of one accumulation window may have different numbers of rows (each contributes its own mean second moment)
    sizes = draw(st.lists(st.integers(1, 4), min_size=accum, max_size=accum)) if accum > 1 and draw(st.booleans()) else None
    return {'pipe': pp, 'data': dp, 'model': mp, 'blocks': blocks, 'h': h, 'f': f, 'accum': accum, 'sizes': sizes,
            'bias': [[draw(st.booleans()), draw(st.booleans())] for _ in range(blocks)],
            'seed': draw(st.integers(0, 9999)), 'N': draw(st.integers(1, 3)),
            'cap': draw(st.sampled_from([0, 1e-5, 25.0])), 'in_hook': draw(st.booleans()), 'prediv': False,
            'hp': {'factor_update_steps': 1, 'inv_update_steps': draw(st.sampled_from([1, 1, 2])),
                   'damping': draw(st.sampled_from([0.01, 0.05, 0.3, 1.0])), 'factor_decay': draw(st.sampled_from([0.95, 0.5])),
                   'kl_clip': 1e30 if clip == 'off' else draw(st.sampled_from([1e-3, 1e-5, 1e-2])), 'lr': draw(st.sampled_from([0.1, 1.0]))},
            'clip': clip, 'steps': draw(st.integers(1, 3)), 'data_seed': draw(st.integers(0, 999)),
            'schedule': draw(st.lists(st.integers(0, 63), max_size=200)), 'flip': draw(st.booleans()), 'heuristic': draw(st.sampled_from(['compute', 'compute', 'memory'])),
            'seq': draw(st.sampled_from([0, 0, 2, 3])),
            # AMP: loss scaled, gradients unscaled before step(), grad_scaler reports the scale; factor dtype forced or not
            'loss_scale': draw(st.sampled_from([None, None, None, 256.0])), 'factor_dtype': draw(st.sampled_from([None, None, 'float32']))}


class C11(Prop):
    id = 'C11'
    title = 'Model-parallel sharding is transparent to GPT-NeoX preconditioning'
    rule = ('Hypothesis draws data-parallel degree 1-3 x model-parallel degree 1-4 (pipe 1, sometimes 2 with independent stage stacks), accumulation 1-2, one or two Megatron MLP blocks '
            '(column-parallel -> tanh -> row-parallel, hidden 1-5, ffn = model degree x 1-3), bias on/off independently per layer, clipping '
            'inactive (1e30) or active, bucketed or not, hook/no-hook, 1-3 steps with gradient-independent weight drift, and a rank schedule. '
            'The real GPTNeoXKFACPreconditioner runs on data x model simulated ranks with DeepSpeed/Megatron doubles (real sharded '
            'forward/backward, all_gather / reduce_scatter / broadcast on the simulator). Oracle = the real single-process KFACPreconditioner on '
            'the UNSHARDED layers fed the union of the data-parallel batches: factors in the gathered state_dict equal the unsharded factors; '
            'after every step each rank holds its shard (rows for column-parallel weight/bias, columns for row-parallel weight, whole '
            'row-parallel bias) of the unsharded gradient within the conditioning-scaled tolerance; bit-identical across data-parallel replicas '
            'and, for replicated parameters, across model-parallel peers; no protocol violation. Non-trivial: model degree >= 2.')
    assumptions = ['DeepSpeed/Megatron doubles (vkit/ds_doubles) stand in for the real libraries; the simulator\'s all_gather/reduce_scatter cannot be '
                   'cross-validated against gloo (gloo has no reduce_scatter)',
                   'tolerance: 16 sqrt(n) eps32 kappa accumulated over steps; looser than 5e-2 counts as trivial']
    examples = {'quick': 110, 'thorough': 500}
    shards = {'quick': 8, 'thorough': 16}
    shrink_budget_s = {'quick': 30.0, 'thorough': 180.0}
    required_labels = {'quick': ['nontrivial=True', 'model=2', 'clip=active', 'bias_free_col=True'],
                       'thorough': ['nontrivial=True', 'model=2', 'model=3', 'model=4', 'clip=active', 'bias_free_col=True']}

    def strategy(self, tier):
        return _case(tier == 'thorough')

    def summarize(self, infos):
        r = sorted(i['ratio'] for i in infos if 'ratio' in i)
        return {'err_over_tol': {'p50': r[len(r) // 2], 'max': r[-1]}} if r else {}

    def run_case(self, case):
        import torch
        from vkit import gptrun, refkfac
        from vkit.ds_doubles import PipeModelDataParallelTopology

        dp, mp, pp = case['data'], case['model'], case.get('pipe', 1)
        W = dp * mp * pp
        program = [{'op': 'train', 'seed': case['data_seed'] + t} for t in range(case['steps'])] + [{'op': 'state_dict'}]
        labels = {'data': dp, 'model': mp, 'clip': case['clip'], 'blocks': case['blocks'], 'bucketed': case['cap'] > 0,
                  'bias_free_col': any(not b[0] for b in case['bias']), 'bias_free_row': any(not b[1] for b in case['bias'])}
        clip_region = case['clip'] == 'active' and mp >= 2
        res = gptrun.run_gpt(case, program, case['schedule'], case['flip'], observe=('state', 'grads_before'))
        if res.timed_out:
            raise RuntimeError('simulation timed out (harness)')
        if not res.ok:
            v = res.violations[0]
            return violation(f'protocol violation {v} :: data={dp} model={mp} bias={case["bias"]} clip={case["clip"]}', 'protocol:' + v.kind, labels=labels)
        refs = [gptrun.run_reference(case, program, stage) for stage in range(pp)]
        topo = PipeModelDataParallelTopology(num_pp=pp, num_mp=mp, num_dp=dp)
        labels['pipe'] = pp
        eps = refkfac.EPS[torch.float32]
        lam = case['hp']['damping']
        # factors of the unsharded layers
        state = res.results[0][-1]['state']
        tol_f = 4 * (case['steps'] + 1) * 2 * eps
        for n, f in [(n, f) for ref in refs for n, f in ref[-1]['factors'].items()]:
            if n not in state['layers']:
                return violation(f'gathered state lacks layer {n}: {sorted(state["layers"])}', 'state-missing-layer', labels=labels)
            for which in ('A', 'G'):
                got = state['layers'][n][which].to(torch.float64)
                exp = f[which].to(torch.float64)
                if tuple(got.shape) != tuple(exp.shape):
                    return violation(f'factor {which} of {n} has shape {tuple(got.shape)}, the unsharded layer has {tuple(exp.shape)}', 'factor-shape', labels=labels)
                err = (got - exp).norm().item() / max(exp.norm().item(), 1e-300)
                if err > tol_f:
                    return violation(f'factor {which} of {n} differs from the unsharded layer\'s factor by {err:.3e} relative (data={dp}, model={mp}, bias={case["bias"]})',
                                     'factor-mismatch', labels=labels)
        cum, worst, informative = 0.0, 0.0, False
        kmax = {}
        for t in range(case['steps']):
            tols = {}
            for n, f in [(n, f) for ref in refs for n, f in ref[t]['factors'].items()]:
                A, G = f['A'].to(torch.float64), f['G'].to(torch.float64)
                k = refkfac.solve_eigen(A, G, lam, torch.zeros(G.shape[0], A.shape[0], dtype=torch.float64))[1]
                kmax[n] = max(kmax.get(n, 1.0), k)
                tols[n] = refkfac.tolerance(kmax[n], A.shape[0] * G.shape[0], eps)
            tmax = max(tols.values())
            for rank in range(W):
                co = topo.get_coord(rank)
                ref = refs[co.pipe]
                after = res.results[rank][t]['after']
                for pname, g in after.items():
                    lname = pname.rsplit('.', 1)[0]
                    full = ref[t]['after'][pname]
                    exp = gptrun.shard_of(case, pname, full, co.model)
                    if tuple(g.shape) != tuple(exp.shape):
                        return violation(f'step {t} rank {rank}: gradient {pname} has shape {tuple(g.shape)}, its shard of the unsharded gradient has {tuple(exp.shape)}', 'shard-shape', labels=labels)
                    # the sharded and the unsharded run compute the raw gradient D along different float32 summation orders
                    # (sharded matmuls + all-reduce); that input difference is measured and amplified by the conditioning
                    bfull_w = ref[t]['before'][lname + '.weight'].double()
                    bfull_b = ref[t]['before'].get(lname + '.bias')
                    dnorm = max((bfull_w.norm().item() ** 2 + (bfull_b.double().norm().item() ** 2 if bfull_b is not None else 0.0)) ** 0.5, 1e-300)
                    dD = 0.0
                    for r2 in range(W):
                        c2 = topo.get_coord(r2)
                        if c2.pipe != co.pipe:
                            continue
                        for pn in (lname + '.weight', lname + '.bias'):
                            if pn in res.results[r2][t]['before']:
                                e = gptrun.shard_of(case, pn, ref[t]['before'][pn], c2.model).double() - res.results[r2][t]['before'][pn].double()
                                dD = max(dD, e.norm().item() / dnorm)
                    tol = tols[lname] + 4 * kmax[lname] * dD + (tmax if case['clip'] == 'active' else 0.0) + 2 * cum
                    # replicas / peers: exact
                    for other in range(W):
                        oc = topo.get_coord(other)
                        same_shard = oc.pipe == co.pipe and (oc.model == co.model or pname.endswith('row.bias'))
                        if other != rank and same_shard and not torch.equal(g, res.results[other][t]['after'][pname]):
                            key = 'clip-scale-model-parallel' if clip_region else 'replica-divergence'
                            return violation(f'step {t}: gradient {pname} differs between rank {rank} {tuple(co)} and rank {other} {tuple(oc)} which hold the same shard '
                                             f'(clip={case["clip"]}, data={dp}, model={mp})', key, labels=labels)
                    if tol > 5e-2:
                        continue
                    informative = True
                    # compare per layer-parameter against the slice of the unsharded result
                    # the weight and bias columns belong to ONE solve (A couples them): errors are relative to the layer's
                    # combined gradient, not to each parameter separately
                    fb = ref[t]['after'].get(lname + '.bias')
                    fw = ref[t]['after'][lname + '.weight']
                    den = max((fw.double().norm().item() ** 2 + (fb.double().norm().item() ** 2 if fb is not None else 0.0)) ** 0.5, 1e-300)
                    err = (g.to(torch.float64) - exp.to(torch.float64)).norm().item() / den
                    worst = max(worst, err / tol)
                    if err > tol:
                        key = 'clip-scale-model-parallel' if clip_region else 'shard-mismatch'
                        return violation(f'step {t} rank {rank} {tuple(co)}: gradient {pname} differs from its shard of the unsharded layer\'s gradient by {err:.3e} '
                                         f'(relative to the combined unsharded gradient of the layer; tolerance {tol:.3e}; clip={case["clip"]}, data={dp}, model={mp}, bias={case["bias"]})', key, labels=labels)
            cum += tmax
        nt = mp >= 2 and informative
        labels['nontrivial'] = nt
        return passed(nt, labels, {'ratio': worst})


PROP = C11()
