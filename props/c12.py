"""C12 - GPT-NeoX assignment is consistent across the 3-D topology (static fake world, exhaustive over small topologies)."""

from __future__ import annotations

import warnings

from hypothesis import strategies as st

from vkit.runner import Prop, passed, violation


def topologies(limit):
    out = []
    for p in range(1, limit + 1):
        for d in range(1, limit // p + 1):
            for m in range(1, limit // (p * d) + 1):
                out.append((p, d, m))
    return out


def stage_work(idx, stage, nranks):
    """Cost dictionaries per stage (layer names are unique per stage)."""
    pre = f's{stage}.'
    if idx == 0:
        return {pre + f'l{i}': {'A': 8, 'G': 8} for i in range(3)}
    if idx == 1:   # ties, more layers than ranks
        return {pre + f'l{i}': {'A': 1, 'G': 1} for i in range(nranks + 2)}
    if idx == 2:   # non-square MLP (A != G), the G-only ranking differs from the A+G ranking
        d = {}
        for i in range(3):
            d[pre + f'{i}.h_to_4h'] = {'A': 8 + i, 'G': 64}
            d[pre + f'{i}.4h_to_h'] = {'A': 64, 'G': 8 - i}
        return d
    if idx == 3:   # zeros and a giant
        d = {pre + f'l{i}': {'A': 0, 'G': 0} for i in range(3)}
        d[pre + 'big'] = {'A': 10 ** 6, 'G': 1}
        return d
    if idx == 4:   # single layer
        return {pre + 'only': {'A': 27, 'G': 64}}
    if idx == 5:   # names out of cost order, equal totals with different splits
        return {pre + n: {'A': a, 'G': g} for n, a, g in [('z', 3, 5), ('a', 5, 3), ('m', 4, 4), ('b', 1, 9), ('y', 9, 1), ('c', 2, 2)]}
    if idx == 6:   # the first stage holds no K-FAC layer at all (e.g. embeddings only); the others do
        return {} if stage == 0 else {pre + f'l{i}': {'A': 8 + i, 'G': 8} for i in range(2)}
    if idx == 7:   # only the last-but-one... every odd stage is empty
        return {} if stage % 2 == 1 else {pre + f'l{i}': {'A': 3, 'G': 5 + i} for i in range(3)}
    if idx == 8:   # seven layers of distinct, slowly decreasing totals (no ties: exactly one valid greedy placement over the stage)
        return {pre + f'l{i}': {'A': c, 'G': 1} for i, c in enumerate([9, 7, 5, 4, 3, 2, 1])}
    raise IndexError(idx)


NFAM = 9


class C12(Prop):
    id = 'C12'
    title = 'GPT-NeoX assignment is consistent across the 3-D topology'
    rule = ('Exhaustive: every (pipe, data, model) with product <= 24 (quick) / <= 64 (thorough), EVERY local rank, 9 families of per-stage cost '
            'dictionaries (uniform, ties with more layers than ranks, non-square MLP costs with A != G, zeros + one giant, single layer, equal '
            'totals with different splits, a first stage without any layer, every odd stage without layers, seven layers of distinct totals) plus Hypothesis-drawn topologies and dictionaries. GPTNeoXAssignment is instantiated on every rank '
            'inside a static fake world in which torch.distributed.new_group records its arguments per rank. Oracle: per stage all ranks agree '
            'on one inverse worker per layer, it is a rank of the stage, both factors coincide and the assignment is a valid least-loaded greedy '
            'placement (tie-tolerant replay of C17 with the stage as the only group, co-located); factor_worker is in the rank\'s model-parallel '
            'group and in the inverse worker\'s data-parallel group; src_grad_worker is in the rank\'s data-parallel group and has the rank\'s '
            'model coordinate; is_grad_worker <=> the rank is a model-parallel peer of the inverse worker; broadcast flags True/False; the '
            'per-rank sequences of new_group member lists are identical over ALL ranks of the world. Non-trivial: >= 2 of pipe, data, model > 1.')
    assumptions = ['PipeModelDataParallelTopology double (axes pipe, data, model; row-major ranks) - properties checked are structural',
                   'every rank of a stage is given the same cost dictionary (they hold the same layers)']
    exhaustive = True
    examples = {'quick': 60, 'thorough': 600}
    shards = {'quick': 8, 'thorough': 16}
    enum_shards = {'quick': 4, 'thorough': 16}
    required_labels = {'quick': ['kind=enum', 'kind=gen', 'nontrivial=True', 'all3=True'], 'thorough': ['kind=enum', 'kind=gen', 'nontrivial=True', 'all3=True']}

    fuzz = {'thorough': {'runs': 3000, 'max_time': 60, 'procs': 4}}

    def strategy(self, tier):
        cost = st.one_of(st.sampled_from([0, 1, 1, 8, 27, 64, 125, 512]), st.integers(0, 20),
                         # costs are floats by annotation: fractions (e.g. shares of the total work), exactly summable
                         st.sampled_from([0.25, 0.5, 0.75, 1.5, 2.5, 0.125]))

        @st.composite
        def gen(draw):
            p, d, m = draw(st.sampled_from([t for t in topologies(32) if t[0] * t[1] * t[2] >= 2]))
            tie = draw(cost)
            nl = draw(st.integers(1, 8))
            names = draw(st.permutations([f'L{i}' for i in range(nl)]))
            work = [[n, draw(st.one_of(cost, st.just(tie))), draw(st.one_of(cost, st.just(tie)))] for n in names]
            # stages without any K-FAC layer (their ranks must still take part in every group creation)
            empty = sorted(draw(st.sets(st.integers(0, p - 1), max_size=p))) if draw(st.integers(0, 3)) == 0 else []
            return {'kind': 'gen', 'topo': [p, d, m], 'work': work, 'empty_stages': empty}
        return gen()

    def enumerate(self, tier, shard, nshards):
        limit = 24 if tier == 'quick' else 64
        for i, t in enumerate(topologies(limit)):
            if i % nshards == shard:
                yield {'kind': 'enum', 'topo': list(t)}

    def summarize(self, infos):
        return {'inner_evaluations': sum(i.get('inner', 0) for i in infos)}

    def run_case(self, case):
        from vkit import ds_doubles
        ds_doubles.install()
        p, d, m = case['topo']
        inner = 0
        with warnings.catch_warnings():
            warnings.simplefilter('ignore')
            if case['kind'] == 'enum':
                for idx in range(NFAM):
                    bad = self._check(p, d, m, lambda s, n, idx=idx: stage_work(idx, s, n))
                    inner += p * d * m
                    if bad:
                        return violation(f'topology (pipe,data,model)=({p},{d},{m}) family {idx}: {bad[1]}', bad[0],
                                         labels={'kind': 'enum'})
            else:
                wk = lambda s, n: {} if s in case.get('empty_stages', []) else {f's{s}.{nm}': {'A': a, 'G': g} for nm, a, g in case['work']}
                bad = self._check(p, d, m, wk)
                inner += p * d * m
                if bad:
                    return violation(f'topology ({p},{d},{m}) work={case["work"]}: {bad[1]}', bad[0], labels={'kind': 'gen'})
        nt = sum(x > 1 for x in (p, d, m)) >= 2
        return passed(nt, {'kind': case['kind'], 'nontrivial': nt, 'all3': min(p, d, m) > 1}, {'inner': inner})

    def _check(self, p, d, m, work_fn):
        import torch.distributed as dist
        from vkit.ds_doubles import PipeModelDataParallelTopology
        from kfac.gpt_neox.assignment import GPTNeoXAssignment
        from props.c17 import check_assignment

        topo = PipeModelDataParallelTopology(num_pp=p, num_mp=m, num_dp=d)
        W = p * d * m
        dp_lists = topo.get_axis_comm_lists('data')
        mp_lists = topo.get_axis_comm_lists('model')
        group_of = lambda r, lists: next(tuple(l) for l in lists if r in l)
        calls = {r: [] for r in range(W)}
        insts = {}
        saved = dist.new_group
        try:
            for r in range(W):
                dist.new_group = lambda ranks=None, *a, r=r, **k: (calls[r].append(tuple(sorted(range(W) if ranks is None else ranks))) or ('group', tuple(sorted(ranks))))
                stage = topo.get_coord(r).pipe
                work = work_fn(stage, d * m)
                try:
                    insts[r] = GPTNeoXAssignment(work, local_rank=r, topology=topo, data_parallel_group=('group', group_of(r, dp_lists)),
                                                 model_parallel_group=('group', group_of(r, mp_lists)))
                except Exception as e:  # noqa: BLE001
                    return 'construction', f'rank {r}: GPTNeoXAssignment raised {type(e).__name__}: {e}'
                # the preconditioner reads the stage group once per registered layer (so a rank whose stage has no layer never reads
                # it): whatever group creation that triggers still counts as "groups this rank created"
                for _layer in work:
                    getattr(insts[r], 'pipe_parallel_peer_group', None)
            # decoys: further assignment objects over the same layer names but other costs, created afterwards and kept alive while
            # the ones under test are queried (objects must not share state)
            decoys = []
            dist.new_group = lambda ranks=None, *a, **k: ('group', tuple(sorted(ranks or range(W))))
            for r in sorted({0, W - 1}):
                stage = topo.get_coord(r).pipe
                w0 = work_fn(stage, d * m)
                w2 = {n: {f: (c + 1) * (len(w0) - i) for f, c in fs.items()} for i, (n, fs) in enumerate(w0.items())}
                try:
                    decoys.append(GPTNeoXAssignment(w2, local_rank=r, topology=topo, data_parallel_group=('group', group_of(r, dp_lists)),
                                                    model_parallel_group=('group', group_of(r, mp_lists))))
                except Exception:  # noqa: BLE001
                    pass
        finally:
            dist.new_group = saved
        try:
            return self._relations(p, d, m, W, topo, insts, calls, work_fn, dp_lists, mp_lists, group_of, check_assignment)
        except Exception as e:  # noqa: BLE001  (a query method failing on a valid topology)
            import traceback
            return 'query-exception', f'{type(e).__name__}: {e} :: {traceback.format_exc()[-500:]}'

    def _relations(self, p, d, m, W, topo, insts, calls, work_fn, dp_lists, mp_lists, group_of, check_assignment):
        for s in range(p):
            ranks = [r for r in range(W) if topo.get_coord(r).pipe == s]
            work = work_fn(s, d * m)
            a0 = insts[ranks[0]]
            if set(a0.get_layers()) != set(work):
                return 'layers', f'stage {s}: layers {a0.get_layers()} != {list(work)}'
            result = {}
            for layer in work:
                invs = {f: a0.inv_worker(layer, f) for f in a0.get_factors(layer)}
                if len(set(invs.values())) != 1:
                    return 'factors-split', f'stage {s} layer {layer}: factors on different inverse workers {invs}'
                iw = next(iter(invs.values()))
                if iw not in ranks:
                    return 'inv-worker-outside-stage', f'stage {s} layer {layer}: inverse worker {iw} is not a rank of the stage {ranks}'
                result[layer] = dict(invs)
                for r in ranks:
                    a = insts[r]
                    if {f: a.inv_worker(layer, f) for f in a.get_factors(layer)} != invs:
                        return 'rank-disagree', f'stage {s} layer {layer}: rank {r} derives {[a.inv_worker(layer, f) for f in a.get_factors(layer)]}, rank {ranks[0]} derives {invs}'
                    c = topo.get_coord(r)
                    my_mp, my_dp = group_of(r, mp_lists), group_of(r, dp_lists)
                    fw = a.factor_worker(layer, 'A')
                    if fw not in my_mp or fw not in group_of(iw, dp_lists) or a.factor_worker(layer, 'G') != fw:
                        return 'factor-worker', (f'rank {r} layer {layer}: factor_worker={fw} must be in own model-parallel group {my_mp} and in the '
                                                 f'inverse worker\'s ({iw}) data-parallel group {group_of(iw, dp_lists)}')
                    src = a.src_grad_worker(layer)
                    if src not in my_dp or topo.get_coord(src).model != c.model:
                        return 'src-grad-worker', f'rank {r} layer {layer}: src_grad_worker={src} must be in own data-parallel group {my_dp} with model coordinate {c.model}'
                    if a.is_grad_worker(layer) != (r in group_of(iw, mp_lists)):
                        return 'is-grad-worker', f'rank {r} layer {layer}: is_grad_worker={a.is_grad_worker(layer)} but inverse worker {iw} has model-parallel peers {group_of(iw, mp_lists)}'
                    if a.is_grad_worker(layer) and src != r:
                        return 'src-grad-worker', f'rank {r} is a gradient worker of {layer} but its source is {src}'
                    if a.broadcast_gradients() is not True or a.broadcast_inverses() is not False:
                        return 'flags', f'rank {r}: broadcast flags {a.broadcast_gradients()}, {a.broadcast_inverses()}'
                    if a.grad_receiver_group(layer) != ('group', my_dp):
                        return 'receiver-group', f'rank {r}: grad_receiver_group is not its data-parallel group'
            bad = check_assignment(work, [ranks], W, True, result)
            if bad:
                return 'not-greedy', f'stage {s} (ranks {ranks}): {bad[1]}'
        ref = calls[0]
        for r in range(1, W):
            if calls[r] != ref:
                return 'new-group-order', f'rank 0 creates groups {ref} but rank {r} creates {calls[r]} (all ranks must create the same groups in the same order)'
        return None


PROP = C12()
