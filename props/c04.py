"""C04 - Kronecker factors are decayed running averages of batch second moments."""

from __future__ import annotations

import math

from hypothesis import strategies as st

from vkit import gens
from vkit.runner import Prop, passed, violation

DECAYS = [0.95, 0.5, 1.0, 0.8, 0.3, 0.1]


def _decay():
    return st.one_of(st.sampled_from(DECAYS), st.sampled_from(DECAYS),
                     st.lists(st.sampled_from(DECAYS), min_size=2, max_size=4).map(lambda t: {'table': t}),
                     st.sampled_from([{'exp': 0.95}, {'exp': 0.5}]))


@st.composite
def _single(draw):
    accum = draw(st.sampled_from([1, 1, 2, 3]))
    n_ops = draw(st.integers(1, 8))
    bystander = draw(st.sampled_from([False, False, False, True]))
    ops = []
    for _ in range(n_ops):
        if draw(st.integers(0, 4)) == 0:
            ops.append({'op': 'eval', 'seed': draw(st.integers(0, 9999))})
        else:
            op = {'op': 'train', 'seed': draw(st.integers(0, 9999))}
            if accum > 1:
                op['sizes'] = draw(st.lists(st.integers(1, 5), min_size=accum, max_size=accum))
            if bystander:
                op['by'] = sorted(draw(st.sets(st.integers(0, accum - 1), max_size=accum)))
            if draw(st.integers(0, 5)) == 0:
                op['fwd_only_at'] = draw(st.integers(0, 2))   # (no-hook mode, factor-update steps) a forward-only train-mode pass after that micro-batch
            if draw(st.integers(0, 4)) == 0:
                # (honoured when factors are updated in step()) the batch is discarded with reset_batch() after that many micro-batches -
                # with a dynamic loss scale the scale changes at that point - and a full set of micro-batches follows
                op['reset_after'] = draw(st.integers(1, accum))
            ops.append(op)
    pd = draw(st.sampled_from(['float32', 'float32', 'float64']))
    # mixed precision as documented (examples/vision): the forward pass runs inside torch.autocast, usually with a loss scale
    autocast = draw(st.sampled_from([None, None, None, None, 'bfloat16'])) if pd == 'float32' else None
    fdt = draw(st.sampled_from([None, None, 'float32', 'float64', 'bfloat16', 'float16']))
    if autocast and fdt == 'float16':
        fdt = 'float32'          # torch's CPU autocast (bfloat16) cannot mix float16 tensors into its ops: not a K-FAC matter
    return {'kind': 'single', 'autocast': autocast, 'bystander': bystander, 'spec': draw(gens.model_spec(max_layers=3, max_dim=7, max_out=6)),
            'method': 'eigen', 'prediv': False, 'in_hook': draw(st.booleans()), 'accum': accum, 'N': draw(st.integers(1, 5)),
            'style': draw(gens.style_strategy()), 'param_dtype': pd,
            'factor_dtype': fdt,
            'loss_scale': draw(st.sampled_from([None, None, 128.0, 1024.0, 0.5, {'table': [1024.0, 512.0, 2048.0]}, {'table': [8.0, 8.0, 0.25, 64.0]}])),
            'hp': {'factor_update_steps': draw(gens.table_or_const([1, 1, 2, 3])), 'inv_update_steps': draw(st.sampled_from([1, 2, 3])),
                   'damping': 0.1, 'factor_decay': draw(_decay()), 'kl_clip': 1e-2, 'lr': 0.1},
            'program': ops}


@st.composite
def _multi(draw):
    W = draw(st.sampled_from([2, 2, 3, 4]))
    k = draw(st.sampled_from([d for d in range(1, W + 1) if W % d == 0]))
    n_ops = draw(st.integers(1, 6))
    ops = []
    for _ in range(n_ops):
        ops.append({'op': 'eval', 'seed': draw(st.integers(0, 999))} if draw(st.integers(0, 5)) == 0
                   else {'op': 'train', 'seed': draw(st.integers(0, 999))})
    if not any(o['op'] == 'train' for o in ops):
        ops.append({'op': 'train', 'seed': 3})
    return {'kind': 'multi', 'W': W, 'k': k, 'fraction': 'float', 'colocate': True, 'heuristic': 'compute',
            'cap': draw(st.sampled_from([0, 1e-5, 1.2e-4, 25.0])), 'symmetry': draw(st.booleans()),
            'spec': draw(gens.model_spec(max_layers=3, max_dim=6, max_out=5)), 'method': 'eigen', 'prediv': False,
            'in_hook': draw(st.booleans()), 'accum': draw(st.sampled_from([1, 1, 2])), 'N': draw(st.integers(1, 3)),
            'style': draw(gens.style_strategy()),
            'factor_dtype': draw(st.sampled_from([None, None, 'float64', 'bfloat16'])),
            'loss_scale': draw(st.sampled_from([None, None, 256.0])),
            'hp': {'factor_update_steps': draw(gens.table_or_const([1, 1, 2, 3])), 'inv_update_steps': draw(st.sampled_from([1, 1, 2, 3])), 'damping': 0.1,
                   'factor_decay': draw(_decay()), 'kl_clip': 1e-2, 'lr': 0.1},
            'program': ops, 'schedule': draw(st.lists(st.integers(0, 63), max_size=150)), 'flip': draw(st.booleans())}


class C04(Prop):
    id = 'C04'
    title = 'Kronecker factors are decayed running averages of batch second moments'
    rule = ('Hypothesis draws (kind "single") histories of 1-8 train/eval iterations on a model of 1-3 layers (linear incl. N-d inputs, conv2d), '
            'accumulation 1-3 with unequal micro-batch sizes, factor update in hook or in step, factor_update_steps constant or table, decay '
            'constant / table / exponential-averaging schedule, loss scale via a grad_scaler callable, parameter dtype float32/float64, factor '
            'dtype None/float32/float64/bfloat16/float16, forward passes optionally inside torch.autocast(bfloat16) (the documented mixed-precision use); and (kind "multi") the same on W in {2,3,4} simulated ranks with every divisor as worker '
            'count, bucketed or not, symmetric or not, drawn schedule. Oracle: the factor recurrence of vkit/refkfac fed with layer inputs and '
            'output gradients recorded by the harness on a twin model without K-FAC, compared with state_dict() factors after every step on '
            'every rank (relative Frobenius tolerance 16 (updates+1) max(1, sqrt(rows)) eps(factor dtype)); exact symmetry; PSD; dtype == '
            'requested (or the training dtype when None); bit-identical factors across non-update steps and eval passes. Non-trivial: >= 2 '
            'factor updates and (accumulation > 1 or W > 1 or a conv layer or a non-update step in between).')
    assumptions = ['the convolution normalisation (rows divided by the number of output positions, mean over N*positions rows) is the '
                   'statement\'s "patch-unfolded and spatially normalised"',
                   'inputs/output gradients are quantised to the factor dtype before the second moment (as "stored in the requested dtype" implies)',
                   'equal per-rank batch sizes in the multi-rank part']
    examples = {'quick': 200, 'thorough': 700}
    shards = {'quick': 8, 'thorough': 16}
    shrink_budget_s = {'quick': 30.0, 'thorough': 180.0}
    required_labels = {'quick': ['nontrivial=True', 'kind=single', 'kind=multi', 'loss_scale=True', 'factor_dtype=bfloat16', 'dynamic_loss_scale=True', 'autocast=True'],
                       'thorough': ['nontrivial=True', 'kind=single', 'kind=multi', 'loss_scale=True', 'factor_dtype=bfloat16', 'factor_dtype=float64']}

    def strategy(self, tier):
        return st.one_of(_single(), _single(), _multi())

    def summarize(self, infos):
        f = sorted(i['worst_factor'] for i in infos if 'worst_factor' in i)
        return {'factor_err_over_tol': {'p50': f[len(f) // 2], 'max': f[-1]}} if f else {}

    def run_case(self, case):
        return self._single(case) if case['kind'] == 'single' else self._multi(case)

    def _labels(self, case):
        return {'kind': case['kind'], 'in_hook': case['in_hook'], 'accum': case['accum'], 'factor_dtype': str(case['factor_dtype']),
                'loss_scale': case['loss_scale'] is not None, 'dynamic_loss_scale': isinstance(case['loss_scale'], dict), 'bystander': bool(case.get('bystander')), 'autocast': bool(case.get('autocast')), 'has_conv': any(L['t'] == 'conv' for L in case['spec']['layers']),
                'decay_kind': 'const' if not isinstance(case['hp']['factor_decay'], dict) else list(case['hp']['factor_decay'])[0]}

    def _single(self, case):
        from vkit.history import LockStep
        ls = LockStep(case)
        labels = self._labels(case)
        for i, op in enumerate(case['program']):
            if op['op'] == 'train':
                bad = ls.train_iter(op['seed'], op.get('sizes'), op.get('reset_after'), by=op.get('by', ()), fwd_only_at=op.get('fwd_only_at'))
            else:
                bad = ls.eval_pass(op['seed'])
            # this property owns the factor clauses only; gradients are C01/C05's subject
            if bad and bad[0] != 'grad-mismatch':
                return violation(f'op {i} {op}: {bad[1]} :: in_hook={case["in_hook"]} accum={case["accum"]} factor_dtype={case["factor_dtype"]} '
                                 f'loss_scale={case["loss_scale"]} hp={case["hp"]}', bad[0], labels=labels)
        nupd = sum(1 for _, fu, _, _ in ls.events if fu)
        gap = any(not fu for _, fu, _, _ in ls.events)
        nt = nupd >= 2 and (case['accum'] > 1 or labels['has_conv'] or gap)
        labels['nontrivial'] = nt
        return passed(nt, labels, {'worst_factor': ls.stats['worst_factor']})

    def _multi(self, case):
        import torch
        from vkit import kaisa, kmodel, refkfac
        from vkit.gens import hp_callable
        W = case['W']
        labels = self._labels(case)
        labels['W'] = W
        res = kaisa.run_sim(case, case['program'], case['schedule'], case['flip'], observe=('records', 'factors'))
        if res.timed_out:
            raise RuntimeError('simulation timed out (harness)')
        if not res.ok:
            return violation(f'protocol violation {res.violations[0]}', 'protocol:' + res.violations[0].kind, labels=labels)
        fd = kmodel.dt(case['factor_dtype'])
        model = kmodel.build_model(case['spec'])
        mods = dict(model.named_modules())
        names = kmodel.kfac_layer_names(model)
        hp = {k: hp_callable(v) for k, v in case['hp'].items()}
        ref = refkfac.RefKFAC({n: mods[n] for n in names}, method='eigen', prediv=False, hp=hp, accumulation=case['accum'],
                              in_hook=case['in_hook'], factor_dtype=fd, grad_scale=case['loss_scale'])
        eps = refkfac.EPS[fd or torch.float32]
        updates, worst, max_rows, gap = 0, 0.0, 1, False
        prev = None
        trains = [[r for r in res.results[rank] if r['op'] == 'train'] for rank in range(W)]
        for t in range(len(trains[0])):
            for micro in range(case['accum']):
                recs = [trains[rank][t]['recs'][micro] for rank in range(W)]
                for n in names:
                    max_rows = max(max_rows, refkfac.input_rows(mods[n], recs[0][n][0]).shape[0])
                ref.observe(recs)
            was_factor = ref.is_factor_step()
            if not ref.in_hook and was_factor:
                ref._update_factors()
            ref.steps += 1
            ref.mini = 0
            updates += int(was_factor)
            gap |= not was_factor
            tol = 16 * (updates + 1) * max(1.0, math.sqrt(max_rows)) * eps
            for rank in range(W):
                fac = trains[rank][t]['factors']
                for n in names:
                    for which, refF in (('A', ref.layers[n].A), ('G', ref.layers[n].G)):
                        got = fac[n][which]
                        if not was_factor:
                            p = prev[rank][n][which] if prev else None
                            same = (p is None and got is None) or (p is not None and got is not None and torch.equal(p, got))
                            if not same:
                                return violation(f'step {t} is not a factor-update step but factor {which} of {n} changed on rank {rank}', 'factor-changed-off-schedule', labels=labels)
                            continue
                        if got is None:
                            return violation(f'step {t}: factor {which} of {n} missing on rank {rank}', 'factor-missing', labels=labels)
                        if got.dtype != (fd or torch.float32):
                            return violation(f'step {t}: factor {which} of {n} on rank {rank} has dtype {got.dtype}, requested {fd or torch.float32}', 'factor-dtype', labels=labels)
                        g64 = got.to(torch.float64)
                        if not torch.equal(g64, g64.t()):
                            return violation(f'step {t}: factor {which} of {n} on rank {rank} is not exactly symmetric (symmetry_aware={case["symmetry"]}, cap={case["cap"]})', 'factor-asymmetric', labels=labels)
                        lmin = torch.linalg.eigvalsh(g64).min().item()
                        if lmin < -64 * eps * max(g64.norm().item(), 1e-30) * g64.shape[0]:
                            return violation(f'step {t}: factor {which} of {n} has eigenvalue {lmin:.3e}', 'factor-not-psd', labels=labels)
                        err = (g64 - refF).norm().item() / max(refF.norm().item(), 1e-300)
                        worst = max(worst, err / tol)
                        if err > tol:
                            return violation(f'step {t}: factor {which} of layer {n} on rank {rank} differs from decay*previous+(1-decay)*mean over ranks/micro-batches '
                                             f'by {err:.3e} relative (tolerance {tol:.3e}; W={W}, accum={case["accum"]}, in_hook={case["in_hook"]}, '
                                             f'cap={case["cap"]}, symmetric={case["symmetry"]})', 'factor-mismatch', labels=labels)
            prev = [trains[rank][t]['factors'] for rank in range(W)]
        nt = updates >= 2
        labels['nontrivial'] = nt
        return passed(nt, labels, {'worst_factor': worst})


PROP = C04()
