"""C18 - GPT-NeoX checkpoints gather and restore every layer factor."""

from __future__ import annotations

import os
import shutil
import tempfile

from hypothesis import strategies as st

from vkit.runner import Prop, passed, violation


@st.composite
def _case(draw):
    pp = draw(st.sampled_from([1, 1, 2]))
    dp = draw(st.sampled_from([1, 2, 2, 3]))
    mp = draw(st.sampled_from([1, 1, 2]))
    # 11 blocks per stage: layer names '0.col' ... '10.col' (one name a suffix of another), more layers than ranks
    blocks = draw(st.sampled_from([1, 1, 1, 2, 2, 11]))
    T = draw(st.integers(1, 4)) if blocks < 11 else draw(st.integers(1, 2))
    return {'pipe': pp, 'data': dp, 'model': mp, 'blocks': blocks, 'h': draw(st.integers(1, 4)), 'f': mp * draw(st.integers(1, 2)),
            'bias': [[draw(st.booleans()), draw(st.booleans())] for _ in range(blocks)], 'seed': draw(st.integers(0, 9999)),
            'N': draw(st.integers(1, 3)), 'cap': draw(st.sampled_from([0, 25.0])), 'in_hook': draw(st.booleans()),
            'prediv': draw(st.sampled_from([False, False, True])),
            'hp': {'factor_update_steps': 1, 'inv_update_steps': draw(st.sampled_from([1, 1, 2, 3])),
                   # constant, or a schedule (lookup table by step): a resumed run must use the value of the restored step
                   'damping': draw(st.sampled_from([0.05, 0.05, {'table': [0.05, 0.2, 0.01, 0.5]}, {'table': [0.3, 0.02]}])), 'factor_decay': 0.9,
                   'kl_clip': 1e30, 'lr': 0.1},
            'T': T, 'c': draw(st.integers(1, T)), 'dir_mode': draw(st.booleans()), 'compute_inverses': draw(st.booleans()),
            'data_seed': draw(st.integers(0, 999)), 'schedule': draw(st.lists(st.integers(0, 63), max_size=200)), 'flip': draw(st.booleans()), 'rollback_live': draw(st.booleans()),
            'heuristic': draw(st.sampled_from(['compute', 'compute', 'memory'])), 'seq': draw(st.sampled_from([0, 0, 2]))}


class C18(Prop):
    id = 'C18'
    title = 'GPT-NeoX checkpoints gather and restore every layer factor'
    rule = ('Hypothesis draws (pipe,data,model) in {1,2}x{1,2,3}x{1,2}, 1-2 MLP blocks (2-4 K-FAC layers) per stage, T in 1..4 steps, a '
            'checkpoint boundary c in 1..T, in-memory or directory checkpointing (per-case temporary directory), compute_inverses on/off '
            '(subject to the documented requirement), clipping inactive, rank schedule. The real GPTNeoXKFACPreconditioner runs on simulated ranks '
            'with DeepSpeed/Megatron doubles. Oracle: after state_dict() on all ranks every rank\'s state has exactly the union of all stages\' '
            'layer names with factors bit-equal to those held by the layer\'s inverse worker (directory mode: exactly one file per layer with that '
            'content and no "layers" key); after load into fresh preconditioners every layer\'s factor-gathering rank holds the saved factors '
            '(and second-order data when requested); the continuation is bit-identical to the uninterrupted twin when the restored second-order '
            'data coincides with the live one (rule of C09), else to nothing stronger than no protocol violation; all ranks take part in the same '
            'collectives (simulator monitors); loading the checkpoint back into the SAME live preconditioners after training on (weights put back) continues bit-identically to resuming in fresh ones. Non-trivial: >= 2 ranks and >= 2 layers; model >= 2 for the restore-placement part.')
    assumptions = ['DeepSpeed/Megatron doubles; each pipeline stage is an independent stack with its own data (no inter-stage activations are needed for the property)',
                   'in directory mode the harness places a barrier between save and load (a checkpoint is read by a later job)']
    examples = {'quick': 45, 'thorough': 300}
    shards = {'quick': 8, 'thorough': 16}
    shrink_budget_s = {'quick': 30.0, 'thorough': 180.0}
    required_labels = {'quick': ['nontrivial=True', 'dir_mode=True', 'dir_mode=False', 'pipe=2', 'model=2'],
                       'thorough': ['nontrivial=True', 'dir_mode=True', 'dir_mode=False', 'pipe=2', 'model=2', 'data=3']}

    def strategy(self, tier):
        return _case()

    def run_case(self, case):
        import torch
        from vkit import gptrun
        from vkit.ds_doubles import PipeModelDataParallelTopology

        pp, dp, mp = case['pipe'], case['data'], case['model']
        W = pp * dp * mp
        T, c = case['T'], case['c']
        refresh_c = c % case['hp']['inv_update_steps'] == 0
        ci = case['compute_inverses'] if refresh_c else True
        labels = {'pipe': pp, 'data': dp, 'model': mp, 'dir_mode': case['dir_mode'], 'compute_inverses': ci, 'blocks': case['blocks']}
        train = lambda t: {'op': 'train', 'seed': case['data_seed'] + t}
        tmp = tempfile.mkdtemp(prefix='c18_', dir='/dev/shm' if os.path.isdir('/dev/shm') else None) if case['dir_mode'] else None
        try:
            run_case = dict(case, ckpt_dir=(os.path.join(tmp, 'factors') if tmp else None))
            prog = [train(t) for t in range(c)] + [{'op': 'load', 'compute_inverses': ci}] + [train(t) for t in range(c, T)] + [{'op': 'state_dict'}]
            res = gptrun.run_gpt(run_case, prog, case['schedule'], case['flip'], observe=('state', 'local_factors', 'assignment'))
            if res.timed_out:
                raise RuntimeError('simulation timed out (harness)')
            where = f'(pipe,data,model)=({pp},{dp},{mp}) blocks={case["blocks"]} checkpoint at {c}/{T} dir_mode={case["dir_mode"]} compute_inverses={ci}'
            if not res.ok:
                v = res.violations[0]
                return violation(f'{where}: protocol violation {v}', 'protocol:' + v.kind, labels=labels)
            topo = PipeModelDataParallelTopology(num_pp=pp, num_mp=mp, num_dp=dp)
            all_layers = sorted(f'{s * case["blocks"] + b}.{k}' for s in range(pp) for b in range(case['blocks']) for k in ('col', 'row'))
            asg = {}
            for rank in range(W):
                asg.update({n: i for n, i in res.results[rank][-1]['info'].items() if topo.get_coord(rank).pipe == topo.get_coord(i['inv']).pipe})
            loads = [next(r for r in res.results[rank] if r['op'] == 'load') for rank in range(W)]
            # saved state on every rank
            for rank in range(W):
                saved = loads[rank]['saved']
                if saved['steps'] != c:
                    return violation(f'{where}: rank {rank} saved steps {saved["steps"]}', 'saved-steps', labels=labels)
                if case['dir_mode']:
                    if 'layers' in saved:
                        return violation(f'{where}: directory mode but the state contains a "layers" key', 'dir-layers-key', labels=labels)
                    continue
                if sorted(saved.get('layers', {})) != all_layers:
                    return violation(f'{where}: rank {rank} saved layers {sorted(saved.get("layers", {}))} != union of all stages {all_layers}', 'saved-layer-set', labels=labels)
                for n in all_layers:
                    holder = loads[asg[n]['inv']]['local_before'][n]
                    for f in ('A', 'G'):
                        if holder[f] is None or not torch.equal(saved['layers'][n][f], holder[f]):
                            return violation(f'{where}: rank {rank}: saved factor {f} of {n} is not the factor held by its inverse worker (rank {asg[n]["inv"]})', 'saved-factor', labels=labels)
            if case['dir_mode']:
                files = loads[0]['files']
                if sorted(files) != all_layers:
                    return violation(f'{where}: files {sorted(files)} != one per layer {all_layers}', 'dir-files', labels=labels)
                for n in all_layers:
                    holder = loads[asg[n]['inv']]['local_before'][n]
                    for f in ('A', 'G'):
                        if not torch.equal(files[n][f], holder[f]):
                            return violation(f'{where}: file of layer {n}: factor {f} is not the one held by its inverse worker', 'saved-factor', labels=labels)
            for rank in range(W):
                rs = loads[rank]['restored']
                if rs['steps'] != c:
                    return violation(f'{where}: rank {rank}: steps after load = {rs["steps"]}, saved at {c}', 'restored-steps', labels=labels)
                for k, v in case['hp'].items():
                    if isinstance(v, dict):
                        continue                      # a schedule (callable) is not part of the saved state
                    if rs.get(k) != v:
                        return violation(f'{where}: rank {rank}: {k} after load = {rs.get(k)!r}, configured/saved {v!r}', 'restored-hyperparameter', labels=labels)
            # restored placement
            for rank in range(W):
                for n, info in loads[rank]['local'].items():
                    if info['factor_worker'] != rank:
                        continue
                    holder = loads[asg[n]['inv']]['local_before'][n]
                    for f in ('A', 'G'):
                        if info[f] is None or not torch.equal(info[f], holder[f]):
                            return violation(f'{where}: rank {rank} gathers and inverts layer {n} but did not get the saved factor {f} back', 'restore-placement', labels=labels)
                    if ci and not info['has_second_order']:
                        return violation(f'{where}: rank {rank} (factor worker of {n}) has no second-order data after load with compute_inverses=True', 'restore-second-order', labels=labels)
            # continuation vs uninterrupted twin
            same = refresh_c or True   # factor_update_steps = 1 and constant damping: live second-order data at c is stale only if c is not a refresh step
            if not refresh_c:
                same = False           # factors were updated at step c-1 after the last refresh: restored data is newer than the live one
            if same and c < T:
                full = gptrun.run_gpt(dict(case, ckpt_dir=None), [train(t) for t in range(T)], case['schedule'], case['flip'])
                if not full.ok:
                    return violation(f'{where}: uninterrupted run: {full.violations[0]}', 'protocol:' + full.violations[0].kind, labels=labels)
                for rank in range(W):
                    got = [r for r in res.results[rank] if r['op'] == 'train']
                    exp = [r for r in full.results[rank] if r['op'] == 'train']
                    for t in range(c, T):
                        for n, g in exp[t]['after'].items():
                            if not torch.equal(g, got[t]['after'][n]):
                                d = ((g - got[t]['after'][n]).norm() / max(g.norm().item(), 1e-300)).item()
                                key = 'resume-diverges-model-parallel' if mp >= 2 else 'resume-diverges'
                                return violation(f'{where}: rank {rank} step {t}: gradient {n} after resuming differs from the uninterrupted run by {d:.3e} relative', key, labels=labels)
            # a boundary that is not a refresh step: the resumed run uses second-order data recomputed from the restored factors, which is
            # exactly what reloading the state in place at that boundary (same objects, nothing else changed) gives
            if not refresh_c and c < T:
                imm = gptrun.run_gpt(run_case, [train(t) for t in range(c)] + [{'op': 'snapshot'}, {'op': 'rollback', 'compute_inverses': True}]
                                     + [train(t) for t in range(c, T)], case['schedule'], case['flip'])
                if imm.timed_out:
                    raise RuntimeError('simulation timed out (harness)')
                if not imm.ok:
                    v = imm.violations[0]
                    return violation(f'{where}: reloading in place at the boundary: {v}', 'protocol:' + v.kind, labels=labels)
                for rank in range(W):
                    a_ = [r for r in imm.results[rank] if r['op'] == 'train'][c:]
                    b_ = [r for r in res.results[rank] if r['op'] == 'train'][c:]
                    for j, (a, b) in enumerate(zip(a_, b_)):
                        for n, g in b['after'].items():
                            if not torch.equal(g, a['after'][n]):
                                d = ((g - a['after'][n]).norm() / max(g.norm().item(), 1e-300)).item()
                                return violation(f'{where}: rank {rank} step {c + j}: gradient {n} after resuming in fresh preconditioners differs by {d:.3e} relative from '
                                                 f'reloading the same state in place at that boundary (prediv={case.get("prediv")}, damping={case["hp"]["damping"]})',
                                                 'resume-diverges', labels=labels)
            # rolling back IN PLACE (same preconditioner objects, weights put back) must behave like resuming in fresh ones
            if c < T:
                rb = gptrun.run_gpt(run_case, [train(t) for t in range(c)] + [{'op': 'snapshot'}] + [train(t) for t in range(c, T)]
                                    + [{'op': 'rollback', 'compute_inverses': ci, 'live': bool(case.get('rollback_live'))}] + [train(t) for t in range(c, T)], case['schedule'], case['flip'])
                if rb.timed_out:
                    raise RuntimeError('simulation timed out (harness)')
                if not rb.ok:
                    v = rb.violations[0]
                    return violation(f'{where}: rollback into the live preconditioners: {v}', 'protocol:' + v.kind, labels=labels)
                for rank in range(W):
                    second = [r for r in rb.results[rank] if r['op'] == 'train'][T:]
                    fresh = [r for r in res.results[rank] if r['op'] == 'train'][c:]
                    for j, (a, b) in enumerate(zip(second, fresh)):
                        for n, g in b['after'].items():
                            if not torch.equal(g, a['after'][n]):
                                d = ((g - a['after'][n]).norm() / max(g.norm().item(), 1e-300)).item()
                                return violation(f'{where}: rank {rank} step {c + j}: after rolling back to this boundary in place the gradient {n} differs from resuming '
                                                 f'in fresh preconditioners by {d:.3e} relative', 'rollback-diverges', labels=labels)
            # final state on every rank must again contain every layer
            if not case['dir_mode']:
                for rank in range(W):
                    fin = res.results[rank][-2]['state']
                    if sorted(fin.get('layers', {})) != all_layers:
                        return violation(f'{where}: final state on rank {rank} has layers {sorted(fin.get("layers", {}))}', 'saved-layer-set', labels=labels)
        finally:
            if tmp:
                shutil.rmtree(tmp, ignore_errors=True)
        nt = W >= 2 and len(all_layers) >= 2
        labels['nontrivial'] = nt
        return passed(nt, labels)


PROP = C18()
