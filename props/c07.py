"""C07 - KL clipping bounds the update and only rescales it (metamorphic: clipped run vs unclipped run + formula)."""

from __future__ import annotations

import math

from hypothesis import strategies as st

from vkit import gens
from vkit.runner import Prop, passed, violation

KL_VALUES = [1e-3, 1e-2, 1e-5, 1e-7, 0.1, 10.0, None]
LR_VALUES = [0.1, 1.0, 0.01, 0.0, 10.0, 1e-3]


@st.composite
def _case(draw, worlds):
    W = draw(st.sampled_from(worlds))
    k = draw(st.sampled_from([d for d in range(1, W + 1) if W % d == 0]))
    method = draw(st.sampled_from(['eigen', 'eigen', 'inverse']))
    prediv = draw(st.booleans()) if method == 'eigen' else False
    kl = draw(st.one_of(st.sampled_from(KL_VALUES), st.sampled_from(KL_VALUES),
                        st.lists(st.sampled_from(KL_VALUES), min_size=2, max_size=4).map(lambda t: {'table': t}),
                        st.lists(st.sampled_from(KL_VALUES[:-1]), min_size=2, max_size=4).map(lambda t: {'live': t})))
    lr = draw(st.one_of(gens.table_or_const(LR_VALUES), st.lists(st.sampled_from(LR_VALUES), min_size=2, max_size=4).map(lambda t: {'live': t})))
    return {'W': W, 'k': k, 'fraction': 'float', 'colocate': True if (method == 'eigen' and prediv) else draw(st.booleans()),
            'heuristic': 'compute', 'cap': draw(st.sampled_from([0, 25.0])), 'symmetry': False,
            'method': method, 'prediv': prediv, 'spec': draw(gens.model_spec(max_layers=3, max_dim=6, max_out=5)),
            'N': draw(st.integers(1, 4)), 'style': draw(gens.style_strategy()),
            'loss_style': draw(st.sampled_from(['mix', 'mix', 'mix', 'mix', 'zero'])),
            'param_dtype': draw(st.sampled_from(['float32', 'float32', 'float64'])),
            'hp': {'factor_update_steps': 1, 'inv_update_steps': draw(st.sampled_from([1, 1, 2])),
                   'damping': draw(st.sampled_from([0.003, 0.03, 0.3, 3.0])), 'factor_decay': draw(st.sampled_from([0.95, 0.5])),
                   'kl_clip': kl, 'lr': lr},
            'steps': draw(st.integers(1, 4)), 'update': 'noise', 'data_seed': draw(st.integers(0, 9999)),
            'zero_to_none': draw(st.booleans()), 'inspect': draw(st.sampled_from([False, False, True])),
            # AMP as documented: the loss is scaled, the gradients are unscaled before step(), grad_scaler tells K-FAC the scale
            'loss_scale': draw(st.sampled_from([None, None, None, 128.0, 1024.0])),
            # constant clip value / learning rate given as a 0-d tensor or a numpy scalar instead of a Python float
            'hp_form': draw(st.sampled_from([None, None, None, 'tensor0d', 'numpy'])),
            'schedule': draw(st.lists(st.integers(0, 63), max_size=100))}


@st.composite
def _tied_case(draw):
    """A model in which two registered layers share one weight Parameter (weight tying)."""
    n = draw(st.integers(1, 4))
    layers = [{'t': 'linear', 'in': n, 'out': n, 'bias': draw(st.booleans()), 'sub': False}, {'t': 'act', 'name': 'tanh'},
              {'t': 'linear', 'in': n, 'out': n, 'bias': draw(st.booleans()), 'sub': False, 'tie_to': 0}]
    if draw(st.booleans()):
        layers += [{'t': 'act', 'name': 'tanh'}, {'t': 'linear', 'in': n, 'out': draw(st.integers(1, 3)), 'bias': draw(st.booleans()), 'sub': False}]
    method = draw(st.sampled_from(['eigen', 'inverse']))
    return {'kind': 'tied', 'W': 1, 'k': 1, 'fraction': 'float', 'colocate': True, 'heuristic': 'compute', 'cap': 25.0, 'symmetry': False,
            'method': method, 'prediv': draw(st.booleans()) if method == 'eigen' else False,
            'spec': {'seed': draw(st.integers(0, 999)), 'input': {'in': n, 'lead': []}, 'layers': layers},
            'N': draw(st.integers(1, 4)), 'style': 'gauss', 'param_dtype': 'float32',
            'hp': {'factor_update_steps': 1, 'inv_update_steps': 1, 'damping': draw(st.sampled_from([0.003, 0.03, 0.3])), 'factor_decay': 0.95,
                   'kl_clip': draw(st.sampled_from([1e-3, 1e-5, 1e-2])), 'lr': draw(st.sampled_from([0.1, 1.0]))},
            'steps': draw(st.integers(1, 3)), 'update': 'noise', 'data_seed': draw(st.integers(0, 9999)), 'zero_to_none': True, 'schedule': []}


def _at(v, step):
    if isinstance(v, dict):
        t = v.get('table') or v.get('live')      # 'live': value of training iteration `step` (programs here are train ops only)
        return t[step % len(t)]
    return v


@st.composite
def _gpt_case(draw):
    mp = draw(st.sampled_from([1, 1, 2]))
    dp = draw(st.sampled_from([1, 2]))
    blocks = draw(st.sampled_from([1, 2]))
    pp = draw(st.sampled_from([1, 1, 2]))
    if pp == 2 and mp == 2 and dp == 2:
        dp = 1
    kl = draw(st.one_of(st.sampled_from([1e-3, 1e-5, 0.1, None]), st.lists(st.sampled_from([1e-3, 1e-6, None, 10.0]), min_size=2, max_size=3).map(lambda t: {'table': t})))
    return {'kind': 'gpt', 'pipe': pp, 'data': dp, 'model': mp, 'blocks': blocks, 'h': draw(st.integers(1, 4)), 'f': mp * draw(st.integers(1, 3)),
            'bias': [[draw(st.booleans()), draw(st.booleans())] for _ in range(blocks)], 'seed': draw(st.integers(0, 999)), 'N': draw(st.integers(1, 3)),
            'cap': draw(st.sampled_from([0, 25.0])), 'in_hook': True, 'prediv': False,
            'hp': {'factor_update_steps': 1, 'inv_update_steps': 1, 'damping': draw(st.sampled_from([0.01, 0.1, 1.0])), 'factor_decay': 0.9,
                   'kl_clip': kl, 'lr': draw(gens.table_or_const([0.1, 1.0, 0.0]))},
            'steps': draw(st.integers(1, 3)), 'data_seed': draw(st.integers(0, 999)), 'schedule': draw(st.lists(st.integers(0, 63), max_size=100))}


class C07(Prop):
    id = 'C07'
    title = 'KL clipping bounds the update and only rescales it'
    rule = ('Hypothesis draws W in {1,1,2,4} (thorough adds 3,6,8) with every divisor as gradient-worker count, a model of 1-3 layers, both '
            'methods, damping, lr constant or table (incl. 0), kl_clip constant, table, None or a table containing None, lr / kl_clip also as callables reading live state that the loop changes between iterations (the documented optimizer-lr idiom), data style incl. '
            'all-zero gradients, float32/float64 parameters, 1-4 steps with gradient-independent weight drift. The identical case is run twice on '
            'the real preconditioner (world of one, or simulated ranks with a drawn schedule): once with kl_clip=1e30 to obtain V and once as '
            'drawn. nu_pred = min(1, sqrt(kl/|sum <V,D> lr^2|)) in float64 (1 if the sum is 0 or kl is None). Checked per step: every layer\'s '
            'gradient on every rank == nu_pred*V within 5e-6 relative (one scalar for all layers and ranks), nu <= 1, nu^2 lr^2 |sum<V,D>| <= kl (1+1e-4); '
            'kl_clip=None constructs and gives exactly V (bit-identical). Non-trivial: some step has nu_pred < 0.99 with >= 2 layers, or kl None, or a zero gradient.')
    assumptions = ['V of the unclipped run is bit-identical to the clipped run\'s pre-scaling result (same operations), so only the scalar is under test',
                   'GPT-NeoX share (one quarter of the cases): pipe 1-2 x data 1-2 x model 1-2 on DeepSpeed/Megatron doubles; model >= 2 with active clipping is the open known finding F7',
                   'one case in nine is a model with tied weights (two registered layers share one weight Parameter): there only "every parameter is scaled by one positive scalar <= 1 relative to the unclipped run" is checked',
                   'with pipe = 2 every stage has its own preconditioner instance: "sum over layers" may be the instance\'s layers (what the code does) or all layers of the model; a run must follow one of the two readings consistently, anything else is reported (key clip-scale-pipeline)']
    examples = {'quick': 120, 'thorough': 500}
    shards = {'quick': 8, 'thorough': 16}
    shrink_budget_s = {'quick': 30.0, 'thorough': 180.0}
    required_labels = {'quick': ['nontrivial=True', 'kl_none=True', 'clip_active=True', 'zero_grad=True', 'multi_rank=True', 'pipe=2', 'live_hp=True', 'tied_weights=True', 'loss_scale=True'],
                       'thorough': ['nontrivial=True', 'kl_none=True', 'clip_active=True', 'zero_grad=True', 'multi_rank=True', 'lr_zero=True']}

    def strategy(self, tier):
        k = _case([1, 1, 2, 4] if tier == 'quick' else [1, 1, 2, 3, 4, 6, 8])
        return st.one_of(k, k, k, k, k, k, _gpt_case(), _gpt_case(), _tied_case())

    def summarize(self, infos):
        r = sorted(i['worst'] for i in infos if 'worst' in i)
        return {'relative_error_vs_nu_pred_V': {'p50': r[len(r) // 2], 'max': r[-1]}} if r else {}

    def run_case(self, case):
        if case.get('kind') == 'gpt':
            return self._gpt(case)
        if case.get('kind') == 'tied':
            return self._tied(case)
        return self._kaisa(case)

    def _tied(self, case):
        """Tied weights: the per-layer V is not observable (the shared gradient is written twice), so only the part of the statement
        that is: the clipped run's gradients are ONE positive scalar <= 1 times the unclipped run's, for every parameter."""
        import copy
        import torch
        from vkit import kaisa
        program = [{'op': 'train', 'seed': case['data_seed'] + t} for t in range(case['steps'])]
        labels = {'tied_weights': True, 'W': 1, 'multi_rank': False, 'method': case['method']}
        unclipped = copy.deepcopy(case)
        unclipped['hp']['kl_clip'] = 1e30
        try:
            base = kaisa.run_single(unclipped, program, observe=('grads_before',))
            clipped = kaisa.run_single(case, program, observe=('grads_before',))
        except Exception as e:  # noqa: BLE001
            return violation(f'tied-weight model: run raised {type(e).__name__}: {e}', 'exception', labels=labels)
        active = False
        for t in range(case['steps']):
            b = [r for r in base if r['op'] == 'train'][t]
            c = [r for r in clipped if r['op'] == 'train'][t]
            scales = {}
            for n, V in b['after'].items():
                got = c['after'][n]
                vv = (V.double() * V.double()).sum().item()
                if vv == 0:
                    continue
                sc = (got.double() * V.double()).sum().item() / vv
                err = (got.double() - sc * V.double()).norm().item() / max((sc * V.double()).norm().item(), 1e-300)
                if err > 5e-6:
                    return violation(f'step {t}: gradient of {n} is not a multiple of the unclipped preconditioned gradient (relative error {err:.3e})', 'clip-direction', labels=labels)
                scales[n] = sc
            if scales:
                lo, hi = min(scales.values()), max(scales.values())
                if lo <= 0 or hi > 1 + 1e-5:
                    return violation(f'step {t}: clip factors {scales} outside (0, 1]', 'clip-scale', labels=labels)
                if (hi - lo) > 5e-6 * hi:
                    return violation(f'step {t}: the parameters of a tied-weight model were scaled by different factors {scales} (one shared scalar expected)', 'clip-scale', labels=labels)
                active |= hi < 0.99
        labels.update({'nontrivial': active, 'clip_active': active})
        return passed(active, labels)

    def _gpt(self, case):
        import copy
        import torch
        from vkit import gptrun
        from vkit.ds_doubles import PipeModelDataParallelTopology
        dp, mp, pp = case['data'], case['model'], case.get('pipe', 1)
        W = dp * mp * pp
        program = [{'op': 'train', 'seed': case['data_seed'] + t} for t in range(case['steps'])]
        labels = {'gpt': True, 'W': W, 'multi_rank': W > 1, 'model': mp, 'data': dp, 'pipe': pp}
        unclipped = copy.deepcopy(case)
        unclipped['hp']['kl_clip'] = 1e30
        outs = []
        for c in (unclipped, case):
            res = gptrun.run_gpt(c, program, case['schedule'], False, observe=('grads_before',))
            if res.timed_out:
                raise RuntimeError('simulation timed out (harness)')
            if not res.ok:
                v = res.violations[0]
                key = 'kl-none-rejected' if 'NoneType' in str(v) else 'protocol:' + v.kind
                return violation(f'GPT-NeoX run with kl_clip={c["hp"]["kl_clip"]}: {v}', key, labels=labels)
            outs.append(res.results)
        base, clipped = outs
        topo = PipeModelDataParallelTopology(num_pp=pp, num_mp=mp, num_dp=dp)
        worst, active, kl_none = 0.0, False, False
        # Every pipeline stage runs its own preconditioner over its own layers.  The statement's "sum over layers" is read, for
        # pipe > 1, either as the stage's layers (what each instance can see) or as all layers of the model (one scalar for the
        # whole model); a run must follow ONE of the two readings on every rank and step.  Anything else is a violation.
        readings = ['stage', 'global'] if pp > 1 else ['stage']
        failures = {}
        for t in range(case['steps']):
            kl, lr = _at(case['hp']['kl_clip'], t), _at(case['hp']['lr'], t)
            # sum over layers of <V, D>: every shard once (data-parallel replica 0), replicated row-parallel biases once
            vgs = [0.0] * pp
            for rank in range(W):
                co = topo.get_coord(rank)
                if co.data != 0:
                    continue
                b = base[rank][t]
                for n, V in b['after'].items():
                    if n.endswith('row.bias') and co.model != 0:
                        continue
                    vgs[co.pipe] += (V.double() * b['before'][n].double()).sum().item()
            def nu_of(vg):
                vg = vg * lr ** 2
                return 1.0 if (kl is None or vg == 0.0) else min(1.0, math.sqrt(kl / abs(vg)))
            nus = {'stage': [nu_of(v) for v in vgs], 'global': [nu_of(sum(vgs))] * pp}
            kl_none |= kl is None
            active |= any(nu < 0.99 for nu in nus['stage'])
            for rank in range(W):
                stage = topo.get_coord(rank).pipe
                for n, V in base[rank][t]['after'].items():
                    got = clipped[rank][t]['after'][n]
                    where = f'GPT-NeoX step {t} rank {rank} {tuple(topo.get_coord(rank))} {n} (kl_clip={kl}, lr={lr}, pipe={pp}, data={dp}, model={mp})'
                    if kl is None:
                        if not torch.equal(got, V):
                            return violation(f'{where}: kl_clip=None must leave the gradient unscaled', 'kl-none-scaled', labels=labels)
                        continue
                    for rd in readings:
                        if rd in failures:
                            continue
                        nu = nus[rd][stage]
                        exp = nu * V.double()
                        den = exp.norm().item()
                        err = (got.double() - exp).norm().item() / den if den > 0 else got.norm().item()
                        if err > 5e-6:
                            failures[rd] = f'{where}: gradient != nu_pred * V with nu_pred={nu:.6g} ({rd} sum; relative error {err:.3e})'
                        else:
                            worst = max(worst, err)
                    if len(failures) == len(readings):
                        key = 'clip-scale-model-parallel' if mp >= 2 else ('clip-scale-pipeline' if pp > 1 else 'clip-scale')
                        return violation(' | '.join(failures[r] for r in readings), key, labels=labels)
        nt = active or kl_none
        labels.update({'nontrivial': nt, 'clip_active': active, 'kl_none': kl_none})
        return passed(nt, labels, {'worst': worst})

    def _kaisa(self, case):
        import copy
        import torch
        from vkit import kaisa, kmodel

        W = case['W']
        program = [{'op': 'train', 'seed': case['data_seed'] + t} for t in range(case['steps'])]
        labels = {'W': W, 'multi_rank': W > 1, 'method': case['method'], 'prediv': case['prediv'],
                  'strategy': 'COMM' if case['k'] == W else 'MEM' if case['k'] == 1 else 'HYBRID',
                  'kl_kind': 'table' if isinstance(case['hp']['kl_clip'], dict) else str(case['hp']['kl_clip'] is None and 'None' or 'const'),
                  'hp_form': str(case.get('hp_form')), 'live_hp': any(isinstance(case['hp'][k], dict) and 'live' in case['hp'][k] for k in ('kl_clip', 'lr')),
                  'inspect': bool(case.get('inspect')), 'loss_scale': case.get('loss_scale') is not None}
        unclipped = copy.deepcopy(case)
        unclipped['hp']['kl_clip'] = 1e30

        def run(c):
            try:
                if W == 1:
                    return [kaisa.run_single(c, program, observe=('grads_before',))], None
                res = kaisa.run_sim(c, program, case['schedule'], False, observe=('grads_before',))
                if res.timed_out:
                    raise RuntimeError('simulation timed out (harness)')
                if not res.ok:
                    return None, res.violations[0]
                return res.results, None
            except RuntimeError:
                raise
        try:
            base, v0 = run(unclipped)
        except Exception as e:  # noqa: BLE001
            if 'harness' in str(e):
                raise
            return violation(f'unclipped run raised {type(e).__name__}: {e}', 'exception', labels=labels)
        if v0 is not None:
            return violation(f'protocol violation in the unclipped run: {v0}', 'protocol:' + v0.kind, labels=labels)
        try:
            clipped, v1 = run(case)
        except Exception as e:  # noqa: BLE001
            if 'harness' in str(e):
                raise
            key = 'kl-none-rejected' if case['hp']['kl_clip'] is None or (isinstance(case['hp']['kl_clip'], dict) and None in case['hp']['kl_clip']['table']) else 'exception'
            return violation(f'run with kl_clip={case["hp"]["kl_clip"]} raised {type(e).__name__}: {e}', key, labels=labels)
        if v1 is not None:
            return violation(f'protocol violation with kl_clip={case["hp"]["kl_clip"]}: {v1}', 'protocol:' + v1.kind, labels=labels)
        model = kmodel.build_model(case['spec'], kmodel.dt(case['param_dtype']))
        mods = dict(model.named_modules())
        names = kmodel.kfac_layer_names(model)
        worst = 0.0
        active = kl_none = zero = False
        for t in range(case['steps']):
            kl = _at(case['hp']['kl_clip'], t)
            lr = _at(case['hp']['lr'], t)
            b0 = [r for r in base[0] if r['op'] == 'train'][t]
            D = {n: kmodel.combined_grad(mods[n], b0['before'], n) for n in names}
            V = {n: kmodel.combined_grad(mods[n], b0['after'], n) for n in names}
            vg = sum((V[n] * D[n]).sum().item() for n in names) * lr ** 2
            if kl is None or vg == 0.0:
                nu = 1.0
            else:
                nu = min(1.0, math.sqrt(kl / abs(vg)))
            kl_none |= kl is None
            zero |= all(D[n].abs().max().item() == 0 for n in names)
            active |= nu < 0.99 and len(names) >= 2
            if nu > 1.0:
                return violation('nu > 1', 'nu-gt-1', labels=labels)
            for rank in range(len(clipped)):
                c_t = [r for r in clipped[rank] if r['op'] == 'train'][t]
                b_t = [r for r in base[rank] if r['op'] == 'train'][t]
                for n in names:
                    Dr = kmodel.combined_grad(mods[n], c_t['before'], n)
                    if not torch.equal(Dr, kmodel.combined_grad(mods[n], b_t['before'], n)):
                        raise RuntimeError('harness: the two runs of the metamorphic pair saw different gradients before step()')
                    Vr = kmodel.combined_grad(mods[n], b_t['after'], n)
                    got = kmodel.combined_grad(mods[n], c_t['after'], n)
                    where = f'step {t} rank {rank} layer {n} (kl_clip={kl}, lr={lr}, W={W}, k={case["k"]}, method={case["method"]})'
                    if kl is None:
                        if not torch.equal(got, Vr):
                            return violation(f'{where}: kl_clip=None must leave the preconditioned gradient unscaled', 'kl-none-scaled', labels=labels)
                        continue
                    exp = nu * Vr
                    den = max(exp.norm().item(), 1e-300)
                    err = (got - exp).norm().item() / den if exp.norm().item() > 0 else got.norm().item()
                    worst = max(worst, err)
                    if err > 5e-6:
                        ratio = (got.norm() / max(Vr.norm().item(), 1e-300)).item()
                        return violation(f'{where}: gradient != nu_pred * V with nu_pred={nu:.6g} (observed scale ~{ratio:.6g}, relative error {err:.3e}); '
                                         f'sum<V,D>lr^2={vg:.6g}', 'clip-scale', labels=labels)
            if kl is not None and nu ** 2 * abs(vg) > kl * (1 + 1e-4) and vg != 0:
                return violation(f'step {t}: nu^2 lr^2 |sum<V,D>| = {nu ** 2 * abs(vg):.6g} exceeds kl_clip={kl}', 'kl-bound', labels=labels)
        nt = active or kl_none or zero
        labels.update({'nontrivial': nt, 'clip_active': active, 'kl_none': kl_none, 'zero_grad': zero,
                       'lr_zero': any(_at(case['hp']['lr'], t) == 0 for t in range(case['steps']))})
        return passed(nt, labels, {'worst': worst})


PROP = C07()
