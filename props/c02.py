"""C02 - distributed work placement is semantically transparent."""

from __future__ import annotations

from hypothesis import strategies as st

from vkit import gens
from vkit.runner import Prop, passed, violation


def divisors(n):
    return [d for d in range(1, n + 1) if n % d == 0]


@st.composite
def placement(draw, W, method, prediv):
    k = draw(st.sampled_from(divisors(W)))
    reprs = ['float']
    if k == W:
        reprs.append('COMM')
    if k == 1:
        reprs.append('MEM')
    if 2 * k == W:
        reprs.append('HYBRID')
    colocate = True if (method == 'eigen' and prediv) else draw(st.booleans())
    return {'k': k, 'fraction': draw(st.sampled_from(reprs)), 'colocate': colocate,
            'heuristic': draw(st.sampled_from(['compute', 'memory'])),
            'cap': draw(st.sampled_from([0, 1e-5, 1.2e-4, 4e-4, 25.0])),
            'symmetry': draw(st.booleans())}


@st.composite
def _case(draw, worlds):
    W = draw(st.sampled_from(worlds))
    method = draw(st.sampled_from(['eigen', 'eigen', 'inverse']))
    prediv = draw(st.booleans()) if method == 'eigen' else False
    spec = draw(gens.model_spec(max_layers=4, max_dim=7, max_out=6, min_layers=1))
    if draw(st.integers(0, 3)) == 0:
        spec = dict(spec, weight_t=True)       # Linear weights (and hence their gradients) in transposed, non-contiguous storage
    # interval pairs: non-multiples on purpose (a step that refreshes the inverses without a factor update right before it, after
    # a factor-only step, needs (2,3) with >= 4 steps or (3,2) with >= 5)
    fus, ius = draw(st.sampled_from([(1, 1), (1, 2), (1, 3), (2, 1), (2, 2), (3, 1), (3, 3), (2, 3), (3, 2), (2, 3), (3, 2)]))
    steps = draw(st.integers(4, 6)) if (ius % fus != 0) else draw(st.integers(1, 4))
    if draw(st.integers(0, 4)) == 0:
        # an interval that itself changes during the run (lookup table t[step % len]); needs a few more steps to matter
        which = draw(st.sampled_from(['inv', 'inv', 'factor', 'both']))
        if which in ('inv', 'both'):
            ius = {'table': draw(st.lists(st.integers(1, 3), min_size=2, max_size=5))}
        if which in ('factor', 'both'):
            fus = {'table': draw(st.lists(st.integers(1, 3), min_size=2, max_size=4))}
        steps = draw(st.integers(4, 7))
    case = {
        'W': W, 'method': method, 'prediv': prediv, 'spec': spec,
        'in_hook': draw(st.booleans()), 'accum': draw(st.sampled_from([1, 1, 2])),
        'N': draw(st.integers(1, 4)), 'style': draw(gens.style_strategy()),
        'hp': {'factor_update_steps': fus, 'inv_update_steps': ius,
               'damping': draw(gens.table_or_const([0.003, 0.01, 0.03, 0.1, 1.0])),
               'factor_decay': draw(st.sampled_from([0.95, 0.5, 0.9, 1.0])),
               'kl_clip': draw(st.sampled_from([1e30, 1e-3, 1e-5, 1e-2])), 'lr': draw(st.sampled_from([0.1, 1.0]))},
        'steps': steps, 'data_seed': draw(st.integers(0, 10 ** 5)), 'zero_to_none': draw(st.booleans()),
        'A': draw(placement(W, method, prediv)), 'B': draw(placement(W, method, prediv)),
        'sched1': draw(st.lists(st.integers(0, 63), max_size=200)),
        'sched2': draw(st.lists(st.integers(0, 63), min_size=20, max_size=300)),
        'sched3': draw(st.lists(st.integers(0, 63), max_size=100)),
    }
    if steps >= 2 and draw(st.integers(0, 3)) == 0:
        # a checkpoint / resume in the middle (state dict pickled, fresh model and preconditioner, load_state_dict with the inverses
        # recomputed) in every run alike: the resumed distributed run must still equal the resumed single-process run
        case['load_at'] = draw(st.integers(1, steps - 1))
    return case


def _merge(case, which):
    c = dict(case)
    c.update(case[which])
    return c


class C02(Prop):
    id = 'C02'
    title = 'Distributed work placement is semantically transparent'
    rule = ('Hypothesis draws W in {1,2,3,4,6,8} (thorough adds 12,16), a model of 1-4 layers with unequal factor sizes, method x pre-division, '
            'hook/no-hook factor updates, accumulation 1-2, intervals (1-3,1-3) with non-multiples over-weighted and, in a fifth of the cases, lookup tables that change the interval during the run, damping constant or table-driven, zero_grad with set_to_none on/off, equal per-rank batches 1-4, 1-4 steps with SGD updates, '
            'and TWO placements (divisor k given as float or enum, colocate, COMPUTE/MEMORY heuristic, bucket cap in {0, 10 B, 120 B, 400 B, 25 MB}, '
            'symmetry-aware) plus three drawn schedules. The real KFACPreconditioner runs on W simulated ranks (vkit/simdist) whose '
            'interleaving and async buffer read/write timing are drawn. Relations: (1) all ranks bit-identical after every step; (2) placement '
            'A under a second schedule with flipped buffer timing bit-identical to (1); (3) placement B within the conditioning-scaled tolerance '
            'of A; (4) world-of-one K-FAC fed the union of the per-rank batches within the same tolerance. Plus (kind "preempt") a systematic bounded-preemption enumeration: on four small fixed configurations every schedule deviating from the default at one (quick) / one or two (thorough) of the first 30/60 schedule points must give bit-identical gradients and no protocol violation; plus (thorough, kind "gloo") eight configurations replayed on real gloo to validate the simulator. Non-trivial: W >= 2, some layer '
            'whose inverse worker is not rank 0, for k < W some rank that is a pure receiver, and >= 1 rank switch inside a step.')
    assumptions = ['vkit/simdist reproduces gloo semantics for all_reduce/broadcast/new_group (validated against real gloo in the thorough tier of this check)',
                   'equal per-rank batch sizes and gradients averaged across ranks before step() (the documented data-parallel precondition)',
                   'relations 3 and 4 are decided up to 16 sqrt(n) eps32 kappa accumulated over steps; cases looser than 5e-2 count as trivial for them']
    examples = {'quick': 50, 'thorough': 400}
    shards = {'quick': 8, 'thorough': 16}
    shrink_budget_s = {'quick': 30.0, 'thorough': 180.0}
    required_labels = {'quick': ['nontrivial=True', 'strategyA=HYBRID', 'strategyA=MEM', 'strategyA=COMM'],
                       'thorough': ['nontrivial=True', 'strategyA=HYBRID', 'strategyA=MEM', 'strategyA=COMM', 'bucketed=True', 'symmetry=True']}

    def strategy(self, tier):
        worlds = [1, 2, 2, 3, 4, 4, 6, 8] if tier == 'quick' else [1, 2, 3, 4, 4, 6, 8, 8, 12, 16]
        return _case(worlds)

    enum_shards = {'quick': 4, 'thorough': 16}

    PREEMPT_CONFIGS = [(2, 1, 'eigen', 25.0, True), (4, 2, 'inverse', 0, False), (3, 3, 'eigen', 1e-5, True), (4, 1, 'eigen', 0, True)]

    def _preempt_case(self, ci):
        W, k, method, cap, in_hook = self.PREEMPT_CONFIGS[ci]
        spec = {'seed': 9, 'input': {'in': 3, 'lead': []}, 'layers': [
            {'t': 'linear', 'in': 3, 'out': 4, 'bias': False, 'sub': False}, {'t': 'act', 'name': 'tanh'},
            {'t': 'linear', 'in': 4, 'out': 2, 'bias': True, 'sub': False}]}
        return {'W': W, 'k': k, 'fraction': 'float', 'colocate': True, 'heuristic': 'compute', 'cap': cap, 'symmetry': method == 'inverse',
                'method': method, 'prediv': method == 'eigen', 'spec': spec, 'in_hook': in_hook, 'accum': 1, 'N': 2, 'style': 'gauss',
                'hp': {'factor_update_steps': 1, 'inv_update_steps': 2, 'damping': 0.01, 'factor_decay': 0.9, 'kl_clip': 1e-3, 'lr': 0.1}}

    def _preempt(self, case):
        import torch
        from vkit import kaisa
        kc = self._preempt_case(case['config'])
        program = [{'op': 'train', 'seed': t} for t in range(2)]
        cache = self.__dict__.setdefault('_base', {})
        if case['config'] not in cache:
            base = kaisa.run_sim(kc, program, [], False)
            if not base.ok:
                return violation(f'protocol violation {base.violations[0]}', 'protocol:' + base.violations[0].kind)
            cache[case['config']] = [[r['after'] for r in base.results[rk] if r['op'] == 'train'] for rk in range(kc['W'])]
        sched = [0] * case['K']
        for p, v in case['devs']:
            sched[p] = v
        res = kaisa.run_sim(kc, program, sched, case.get('flip', False))
        labels = {'kind': 'preempt', 'W': kc['W'], 'ndev': len(case['devs'])}
        if res.timed_out:
            raise RuntimeError('simulation timed out (harness)')
        if not res.ok:
            v = res.violations[0]
            return violation(f'{v} :: bounded-preemption schedule {case["devs"]} on config {self.PREEMPT_CONFIGS[case["config"]]}', 'protocol:' + v.kind, labels=labels)
        for rk in range(kc['W']):
            got = [r['after'] for r in res.results[rk] if r['op'] == 'train']
            for t in range(2):
                for n, g in cache[case['config']][rk][t].items():
                    if not torch.equal(g, got[t][n]):
                        return violation(f'step {t} rank {rk}: gradient {n} under schedule deviations {case["devs"]} (flip={case.get("flip")}) differs from the default schedule '
                                         f'(config {self.PREEMPT_CONFIGS[case["config"]]})', 'schedule-dependence', labels=labels)
        labels['nontrivial'] = True
        return passed(True, labels, {'switches': res.switches})

    def enumerate(self, tier, shard, nshards):
        # (a) systematic bounded-preemption enumeration of schedules on four small configurations
        K = 30 if tier == 'quick' else 60
        i = 0
        for ci in range(len(self.PREEMPT_CONFIGS)):
            devsets = [[[p, v]] for p in range(K) for v in (1, 2)]
            if tier == 'thorough':
                devsets += [[[p, v], [q, 1]] for p in range(0, K, 2) for q in range(p + 1, K, 3) for v in (1, 2)]
            for j, devs in enumerate(devsets):
                if i % nshards == shard:
                    yield {'kind': 'preempt', 'config': ci, 'devs': devs, 'K': K, 'flip': j % 2 == 1}
                i += 1
        # (b) validation of the simulator against real gloo (thorough tier only): fixed configurations, both methods, three strategies
        if tier != 'thorough':
            return
        nshards = min(nshards, 4)
        if shard >= nshards:
            return
        spec = {'seed': 5, 'input': {'C': 2, 'H': 5, 'W': 5}, 'layers': [
            {'t': 'conv', 'cin': 2, 'cout': 3, 'k': [2, 2], 's': [1, 1], 'p': [0, 1], 'bias': True}, {'t': 'act', 'name': 'relu'},
            {'t': 'pool', 'oh': 1, 'ow': 2}, {'t': 'flatten'}, {'t': 'linear', 'in': 6, 'out': 4, 'bias': False},
            {'t': 'act', 'name': 'tanh'}, {'t': 'linear', 'in': 4, 'out': 3, 'bias': True}]}
        configs = [(2, 2, 'eigen', 0), (2, 1, 'inverse', 25.0), (4, 2, 'eigen', 25.0), (4, 4, 'inverse', 0), (4, 1, 'eigen', 1e-4),
                   (4, 2, 'inverse', 1e-4), (3, 3, 'eigen', 25.0), (3, 1, 'eigen', 0)]
        for i, (W, k, method, cap) in enumerate(configs):
            if i % nshards == shard:
                yield {'kind': 'gloo', 'W': W, 'k': k, 'fraction': 'float', 'colocate': True, 'heuristic': 'compute', 'cap': cap,
                       'symmetry': i % 2 == 1, 'method': method, 'prediv': method == 'eigen', 'spec': spec, 'in_hook': i % 3 != 0, 'accum': 1,
                       'N': 2, 'style': 'gauss', 'steps': 3, 'data_seed': 11,
                       'hp': {'factor_update_steps': 1, 'inv_update_steps': 2, 'damping': 0.03, 'factor_decay': 0.9, 'kl_clip': 1e-3, 'lr': 0.1}}

    def _gloo(self, case):
        import torch
        from vkit import gloocheck, kaisa
        program = [{'op': 'train', 'seed': case['data_seed'] + t} for t in range(case['steps'])]
        sim = kaisa.run_sim(case, program, [], False)
        if not sim.ok:
            return violation(f'protocol violation {sim.violations[0]}', 'protocol:' + sim.violations[0].kind)
        real = gloocheck.run_gloo(case, program)
        labels = {'kind': 'gloo', 'W': case['W']}
        if real is None or any(v[0] != 'ok' for v in real.values()):
            labels['gloo'] = 'inconclusive'
            return passed(False, labels, {'gloo_note': str(None if real is None else [v[1][-300:] for v in real.values() if v[0] != 'ok'])[:500]})
        W = case['W']
        for r in range(W):
            got = real[r][1]
            exp = [x for x in sim.results[r] if x['op'] == 'train']
            for t in range(case['steps']):
                for n, g in exp[t]['after'].items():
                    gg = torch.tensor(got[t][n], dtype=g.dtype).reshape(g.shape)
                    err = (gg - g).norm().item() / max(g.norm().item(), 1e-30)
                    if err > 1e-4:
                        raise RuntimeError(f'harness: simulator and real gloo disagree on rank {r} step {t} {n}: rel {err:.3e}')
            # per-group sequences of K-FAC/harness collectives
            def norm(ev):
                return (ev[0], tuple(ev[1]) if ev[1] != 'world' else tuple(range(W)), tuple(ev[2]) if len(ev) > 2 and ev[2] is not None else None,
                        ev[3] if len(ev) > 3 else None, ev[4] if len(ev) > 4 else None)
            real_seq = [norm(e) for e in real[r][2]]
            sim_seq = []
            for e in sim.trace[r]:
                if e['kind'] == 'new_group':
                    sim_seq.append(('new_group', tuple(e['ranks']), None, None, None))
                elif e['kind'] in ('all_reduce', 'broadcast'):
                    sim_seq.append((e['kind'], tuple(e['group']), tuple(e['shape']), e['dtype'], e.get('root')))
            if real_seq != sim_seq:
                i = next((i for i, (a, b) in enumerate(zip(real_seq, sim_seq)) if a != b), min(len(real_seq), len(sim_seq)))
                raise RuntimeError(f'harness: collective sequence on rank {r} differs between gloo and the simulator at #{i}: '
                                   f'{real_seq[i:i + 2]} vs {sim_seq[i:i + 2]}')
        labels['gloo'] = 'agrees'
        return passed(True, labels, {'traces_validated': W})

    def summarize(self, infos):
        r = sorted(i['ratio'] for i in infos if 'ratio' in i)
        if not r:
            return {}
        return {'err_over_tol_rel34': {'p50': r[len(r) // 2], 'max': r[-1]}, 'rank_switches_total': sum(i.get('switches', 0) for i in infos),
                'traces_validated_against_impl': sum(i.get('traces_validated', 0) for i in infos),
                'gloo_notes': [i['gloo_note'] for i in infos if i.get('gloo_note') not in (None, 'None')][:3]}

    def run_case(self, case):
        if case.get('kind') == 'gloo':
            return self._gloo(case)
        if case.get('kind') == 'preempt':
            return self._preempt(case)
        return self._main(case)

    def _main(self, case):
        import torch
        from vkit import kaisa, kmodel, refkfac

        W = case['W']
        program = [{'op': 'train', 'seed': case['data_seed'] + t} for t in range(case['steps'])]
        if case.get('load_at'):
            program.insert(case['load_at'], {'op': 'load', 'compute_inverses': True, 'include_factors': True})
        cA, cB = _merge(case, 'A'), _merge(case, 'B')
        strat = lambda c: 'COMM' if c['k'] == W else 'MEM' if c['k'] == 1 else 'HYBRID'
        labels = {'W': W, 'strategyA': strat(cA), 'strategyB': strat(cB), 'method': case['method'], 'prediv': case['prediv'],
                  'resumed': bool(case.get('load_at')), 'bucketed': cA['cap'] > 0, 'symmetry': cA['symmetry'], 'in_hook': case['in_hook'], 'accum': case['accum'],
                  'intervals': 'changing' if any(isinstance(case['hp'][k], dict) for k in ('factor_update_steps', 'inv_update_steps'))
                  else f"{case['hp']['factor_update_steps']},{case['hp']['inv_update_steps']}"}

        def viol(res, what):
            v = res.violations[0]
            return violation(f'{what}: protocol violation {v}', 'protocol:' + v.kind, labels=labels)

        r1 = kaisa.run_sim(cA, program, case['sched1'], False, observe=('assignment', 'factors', 'grads_before'))
        if r1.timed_out:
            raise RuntimeError('simulation timed out (harness)')
        if not r1.ok:
            return viol(r1, 'placement A, schedule 1')
        names = list(r1.results[0][0]['assignment'].keys())
        steps = [[rec for rec in r1.results[r] if rec['op'] == 'train'] for r in range(W)]
        # (1) identical across ranks
        for t in range(case['steps']):
            for r in range(1, W):
                for n, g in steps[0][t]['after'].items():
                    g2 = steps[r][t]['after'][n]
                    if (g is None) != (g2 is None) or (g is not None and not torch.equal(g, g2)):
                        return violation(f'step {t}: gradient of {n} differs between rank 0 and rank {r} '
                                         f'(max abs diff {(g - g2).abs().max().item() if g is not None and g2 is not None else "None"}) placement={case["A"]}',
                                         'rank-divergence', labels=labels)
        # (2) second schedule, flipped buffer timing
        r2 = kaisa.run_sim(cA, program, case['sched2'], True)
        if not r2.ok:
            return viol(r2, 'placement A, schedule 2')
        s2 = [rec for rec in r2.results[0] if rec['op'] == 'train']
        for t in range(case['steps']):
            for n, g in steps[0][t]['after'].items():
                if g is not None and not torch.equal(g, s2[t]['after'][n]):
                    return violation(f'step {t}: gradient of {n} depends on the rank interleaving / async buffer timing '
                                     f'(max abs diff {(g - s2[t]["after"][n]).abs().max().item():.3e}) placement={case["A"]}',
                                     'schedule-dependence', labels=labels)
        # (3) other placement, (4) world of one
        r3 = kaisa.run_sim(cB, program, case['sched3'], False)
        if not r3.ok:
            return viol(r3, 'placement B')
        s3 = [rec for rec in r3.results[0] if rec['op'] == 'train']
        single = [rec for rec in kaisa.run_single(cA, program, observe=('factors', 'grads_before')) if rec['op'] == 'train']
        model = kmodel.build_model(case['spec'])
        mods = dict(model.named_modules())
        eps = refkfac.EPS[torch.float32]
        dmp = case['hp']['damping']
        lam = min(dmp['table']) if isinstance(dmp, dict) else dmp      # smallest damping of the schedule: upper bound of the conditioning
        cum = 0.0
        worst = 0.0
        informative = False
        kmax = {n: 1.0 for n in names}
        for t in range(case['steps']):
            tols = {}
            for n in names:
                A = single[t]['factors'][n]['A'].to(torch.float64)
                G = single[t]['factors'][n]['G'].to(torch.float64)
                if case['method'] == 'inverse':
                    k = (torch.linalg.cond(A + lam * torch.eye(A.shape[0], dtype=torch.float64)).item()
                         + torch.linalg.cond(G + lam * torch.eye(G.shape[0], dtype=torch.float64)).item())
                else:
                    k = refkfac.solve_eigen(A, G, lam, torch.zeros(G.shape[0], A.shape[0], dtype=torch.float64))[1]
                kmax[n] = max(kmax[n], k)
                tols[n] = refkfac.tolerance(kmax[n], A.shape[0] * G.shape[0], eps)
            tmax = max(tols.values())
            for n in names:
                # the distributed and the single-process run compute the raw gradient and the factors along different float32
                # summation orders (per-rank batches + all-reduce vs one concatenated batch); that measured input difference is
                # amplified by the conditioning and is not the subject of the comparison
                d_ref = kmodel.combined_grad(mods[n], single[t]['before'], n)
                d_sim = kmodel.combined_grad(mods[n], steps[0][t]['before'], n)
                dD = (d_ref - d_sim).norm().item() / max(d_ref.norm().item(), 1e-300)
                dF = 0.0
                for f in ('A', 'G'):
                    fr = single[t]['factors'][n][f].to(torch.float64)
                    fs = steps[0][t]['factors'][n][f].to(torch.float64)
                    dF = max(dF, (fr - fs).norm().item() / max(fr.norm().item(), 1e-300))
                tol = tols[n] + tmax + 2 * cum + 4 * kmax[n] * (dD + dF)
                if tol > 5e-2:
                    continue
                informative = True
                ref = kmodel.combined_grad(mods[n], steps[0][t]['after'], n)
                for what, other, key in (('placement B', s3[t]['after'], 'placement-dependence'),
                                         ('single-process K-FAC on the union batch', single[t]['after'], 'differs-from-single-process')):
                    got = kmodel.combined_grad(mods[n], other, n)
                    err = (got - ref).norm().item()
                    bound = tol * max(ref.norm().item(), got.norm().item()) + 1e-30
                    worst = max(worst, err / bound)
                    if err > bound:
                        return violation(f'step {t} layer {n}: placement A {case["A"]} vs {what} '
                                         f'{case["B"] if key == "placement-dependence" else ""}: relative difference '
                                         f'{err / max(ref.norm().item(), 1e-300):.3e} > tolerance {tol:.3e}', key, labels=labels)
            cum += tmax
        asg = r1.results[0][0]['assignment']
        nonzero_inv = any(w != 0 for n in names for w in asg[n]['inv'].values())
        pure_recv = cA['k'] == W or any(not r1.results[r][0]['assignment'][n]['is_grad_worker'] for r in range(W) for n in names)
        nt = W >= 2 and nonzero_inv and pure_recv and r1.switches > case['steps'] and informative
        labels['nontrivial'] = nt
        return passed(nt, labels, {'ratio': worst, 'switches': r1.switches + r2.switches + r3.switches})


PROP = C02()
