"""C02 - distributed work placement is semantically transparent."""

from __future__ import annotations

from hypothesis import strategies as st

from vkit import gens
from vkit.runner import Prop, passed, violation


def divisors(n):
    return [d for d in range(1, n + 1) if n % d == 0]


@st.composite
def placement(draw, W, method, prediv):
    k = draw(st.sampled_from(divisors(W)))
    reprs = ['float']
    if k == W:
        reprs.append('COMM')
    if k == 1:
        reprs.append('MEM')
    if 2 * k == W:
        reprs.append('HYBRID')
    colocate = True if (method == 'eigen' and prediv) else draw(st.booleans())
    return {'k': k, 'fraction': draw(st.sampled_from(reprs)), 'colocate': colocate,
            'heuristic': draw(st.sampled_from(['compute', 'memory'])),
            'cap': draw(st.sampled_from([0, 1e-5, 1.2e-4, 4e-4, 25.0])),
            'symmetry': draw(st.booleans())}


@st.composite
def _case(draw, worlds):
    W = draw(st.sampled_from(worlds))
    method = draw(st.sampled_from(['eigen', 'eigen', 'inverse']))
    prediv = draw(st.booleans()) if method == 'eigen' else False
    spec = draw(gens.model_spec(max_layers=4, max_dim=7, max_out=6, min_layers=1))
    case = {
        'W': W, 'method': method, 'prediv': prediv, 'spec': spec,
        'in_hook': draw(st.booleans()), 'accum': draw(st.sampled_from([1, 1, 2])),
        'N': draw(st.integers(1, 4)), 'style': draw(gens.style_strategy()),
        'hp': {'factor_update_steps': draw(st.integers(1, 3)), 'inv_update_steps': draw(st.integers(1, 3)),
               'damping': draw(st.sampled_from([0.003, 0.01, 0.03, 0.1, 1.0])),
               'factor_decay': draw(st.sampled_from([0.95, 0.5, 0.9, 1.0])),
               'kl_clip': draw(st.sampled_from([1e30, 1e-3, 1e-5, 1e-2])), 'lr': draw(st.sampled_from([0.1, 1.0]))},
        'steps': draw(st.integers(1, 4)), 'data_seed': draw(st.integers(0, 10 ** 5)),
        'A': draw(placement(W, method, prediv)), 'B': draw(placement(W, method, prediv)),
        'sched1': draw(st.lists(st.integers(0, 63), max_size=200)),
        'sched2': draw(st.lists(st.integers(0, 63), min_size=20, max_size=300)),
        'sched3': draw(st.lists(st.integers(0, 63), max_size=100)),
    }
    return case


def _merge(case, which):
    c = dict(case)
    c.update(case[which])
    return c


class C02(Prop):
    id = 'C02'
    title = 'Distributed work placement is semantically transparent'
    rule = ('Hypothesis draws W in {1,2,3,4,6,8} (thorough adds 12,16), a model of 1-4 layers with unequal factor sizes, method x pre-division, '
            'hook/no-hook factor updates, accumulation 1-2, intervals (1-3,1-3), equal per-rank batches 1-4, 1-4 steps with SGD updates, '
            'and TWO placements (divisor k given as float or enum, colocate, COMPUTE/MEMORY heuristic, bucket cap in {0, 10 B, 120 B, 400 B, 25 MB}, '
            'symmetry-aware) plus three drawn schedules. The real KFACPreconditioner runs on W simulated ranks (vkit/simdist) whose '
            'interleaving and async buffer read/write timing are drawn. Relations: (1) all ranks bit-identical after every step; (2) placement '
            'A under a second schedule with flipped buffer timing bit-identical to (1); (3) placement B within the conditioning-scaled tolerance '
            'of A; (4) world-of-one K-FAC fed the union of the per-rank batches within the same tolerance. Non-trivial: W >= 2, some layer '
            'whose inverse worker is not rank 0, for k < W some rank that is a pure receiver, and >= 1 rank switch inside a step.')
    assumptions = ['vkit/simdist reproduces gloo semantics for all_reduce/broadcast/new_group (validated against real gloo in the thorough tier of this check)',
                   'equal per-rank batch sizes and gradients averaged across ranks before step() (the documented data-parallel precondition)',
                   'relations 3 and 4 are decided up to 16 sqrt(n) eps32 kappa accumulated over steps; cases looser than 5e-2 count as trivial for them']
    examples = {'quick': 50, 'thorough': 400}
    shards = {'quick': 4, 'thorough': 16}
    shrink_budget_s = {'quick': 30.0, 'thorough': 180.0}
    required_labels = {'quick': ['nontrivial=True', 'strategyA=HYBRID', 'strategyA=MEM', 'strategyA=COMM'],
                       'thorough': ['nontrivial=True', 'strategyA=HYBRID', 'strategyA=MEM', 'strategyA=COMM', 'bucketed=True', 'symmetry=True']}

    def strategy(self, tier):
        worlds = [1, 2, 2, 3, 4, 4, 6, 8] if tier == 'quick' else [1, 2, 3, 4, 4, 6, 8, 8, 12, 16]
        return _case(worlds)

    def summarize(self, infos):
        r = sorted(i['ratio'] for i in infos if 'ratio' in i)
        if not r:
            return {}
        return {'err_over_tol_rel34': {'p50': r[len(r) // 2], 'max': r[-1]}, 'rank_switches_total': sum(i.get('switches', 0) for i in infos)}

    def run_case(self, case):
        import torch
        from vkit import kaisa, kmodel, refkfac

        W = case['W']
        program = [{'op': 'train', 'seed': case['data_seed'] + t} for t in range(case['steps'])]
        cA, cB = _merge(case, 'A'), _merge(case, 'B')
        strat = lambda c: 'COMM' if c['k'] == W else 'MEM' if c['k'] == 1 else 'HYBRID'
        labels = {'W': W, 'strategyA': strat(cA), 'strategyB': strat(cB), 'method': case['method'], 'prediv': case['prediv'],
                  'bucketed': cA['cap'] > 0, 'symmetry': cA['symmetry'], 'in_hook': case['in_hook'], 'accum': case['accum'],
                  'intervals': f"{case['hp']['factor_update_steps']},{case['hp']['inv_update_steps']}"}

        def viol(res, what):
            v = res.violations[0]
            return violation(f'{what}: protocol violation {v}', 'protocol:' + v.kind, labels=labels)

        r1 = kaisa.run_sim(cA, program, case['sched1'], False, observe=('assignment', 'factors'))
        if r1.timed_out:
            raise RuntimeError('simulation timed out (harness)')
        if not r1.ok:
            return viol(r1, 'placement A, schedule 1')
        names = list(r1.results[0][0]['assignment'].keys())
        steps = [[rec for rec in r1.results[r] if rec['op'] == 'train'] for r in range(W)]
        # (1) identical across ranks
        for t in range(case['steps']):
            for r in range(1, W):
                for n, g in steps[0][t]['after'].items():
                    g2 = steps[r][t]['after'][n]
                    if (g is None) != (g2 is None) or (g is not None and not torch.equal(g, g2)):
                        return violation(f'step {t}: gradient of {n} differs between rank 0 and rank {r} '
                                         f'(max abs diff {(g - g2).abs().max().item() if g is not None and g2 is not None else "None"}) placement={case["A"]}',
                                         'rank-divergence', labels=labels)
        # (2) second schedule, flipped buffer timing
        r2 = kaisa.run_sim(cA, program, case['sched2'], True)
        if not r2.ok:
            return viol(r2, 'placement A, schedule 2')
        s2 = [rec for rec in r2.results[0] if rec['op'] == 'train']
        for t in range(case['steps']):
            for n, g in steps[0][t]['after'].items():
                if g is not None and not torch.equal(g, s2[t]['after'][n]):
                    return violation(f'step {t}: gradient of {n} depends on the rank interleaving / async buffer timing '
                                     f'(max abs diff {(g - s2[t]["after"][n]).abs().max().item():.3e}) placement={case["A"]}',
                                     'schedule-dependence', labels=labels)
        # (3) other placement, (4) world of one
        r3 = kaisa.run_sim(cB, program, case['sched3'], False)
        if not r3.ok:
            return viol(r3, 'placement B')
        s3 = [rec for rec in r3.results[0] if rec['op'] == 'train']
        single = [rec for rec in kaisa.run_single(cA, program, observe=('factors',)) if rec['op'] == 'train']
        model = kmodel.build_model(case['spec'])
        mods = dict(model.named_modules())
        eps = refkfac.EPS[torch.float32]
        lam = case['hp']['damping']
        cum = 0.0
        worst = 0.0
        informative = False
        kmax = {n: 1.0 for n in names}
        for t in range(case['steps']):
            tols = {}
            for n in names:
                A = single[t]['factors'][n]['A'].to(torch.float64)
                G = single[t]['factors'][n]['G'].to(torch.float64)
                if case['method'] == 'inverse':
                    k = (torch.linalg.cond(A + lam * torch.eye(A.shape[0], dtype=torch.float64)).item()
                         + torch.linalg.cond(G + lam * torch.eye(G.shape[0], dtype=torch.float64)).item())
                else:
                    k = refkfac.solve_eigen(A, G, lam, torch.zeros(G.shape[0], A.shape[0], dtype=torch.float64))[1]
                kmax[n] = max(kmax[n], k)
                tols[n] = refkfac.tolerance(kmax[n], A.shape[0] * G.shape[0], eps)
            tmax = max(tols.values())
            for n in names:
                tol = tols[n] + tmax + 2 * cum
                if tol > 5e-2:
                    continue
                informative = True
                ref = kmodel.combined_grad(mods[n], steps[0][t]['after'], n)
                for what, other, key in (('placement B', s3[t]['after'], 'placement-dependence'),
                                         ('single-process K-FAC on the union batch', single[t]['after'], 'differs-from-single-process')):
                    got = kmodel.combined_grad(mods[n], other, n)
                    err = (got - ref).norm().item()
                    bound = tol * max(ref.norm().item(), got.norm().item()) + 1e-30
                    worst = max(worst, err / bound)
                    if err > bound:
                        return violation(f'step {t} layer {n}: placement A {case["A"]} vs {what} '
                                         f'{case["B"] if key == "placement-dependence" else ""}: relative difference '
                                         f'{err / max(ref.norm().item(), 1e-300):.3e} > tolerance {tol:.3e}', key, labels=labels)
            cum += tmax
        asg = r1.results[0][0]['assignment']
        nonzero_inv = any(w != 0 for n in names for w in asg[n]['inv'].values())
        pure_recv = cA['k'] == W or any(not r1.results[r][0]['assignment'][n]['is_grad_worker'] for r in range(W) for n in names)
        nt = W >= 2 and nonzero_inv and pure_recv and r1.switches > case['steps'] and informative
        labels['nontrivial'] = nt
        return passed(nt, labels, {'ratio': worst, 'switches': r1.switches + r2.switches + r3.switches})


PROP = C02()
