"""C09 - checkpoints round-trip and resuming is equivalent to never stopping."""

from __future__ import annotations

from hypothesis import strategies as st

from vkit import gens
from vkit.runner import Prop, passed, violation
from props.c02 import placement


def _at(v, step):
    return v['table'][step % len(v['table'])] if isinstance(v, dict) else v


@st.composite
def _case(draw, worlds, all_boundaries):
    W = draw(st.sampled_from(worlds))
    method = draw(st.sampled_from(['eigen', 'eigen', 'inverse']))
    prediv = draw(st.booleans()) if method == 'eigen' else False
    T = draw(st.integers(1, 8 if W == 1 else 5))
    case = {'W': W, 'method': method, 'prediv': prediv, 'spec': draw(gens.model_spec(max_layers=3, max_dim=5, max_out=4)),
            'in_hook': draw(st.booleans()), 'accum': draw(st.sampled_from([1, 1, 2])), 'N': draw(st.integers(1, 3)),
            'zero_to_none': draw(st.booleans()),
            'style': draw(gens.style_strategy()),
            'hp': {'factor_update_steps': draw(gens.table_or_const([1, 1, 2, 3])), 'inv_update_steps': draw(gens.table_or_const([1, 2, 3, 4])),
                   'damping': draw(gens.table_or_const([0.01, 0.1, 1.0])), 'factor_decay': draw(gens.table_or_const([0.95, 0.5, 0.8])),
                   'kl_clip': draw(gens.table_or_const([1e-3, 1e30, 1e-2, None])), 'lr': draw(gens.table_or_const([0.1, 1.0, 0.0]))},
            'T': T, 'data_seed': draw(st.integers(0, 9999)),
            'cs': list(range(T + 1)) if all_boundaries else sorted(set(draw(st.lists(st.integers(0, T), min_size=1, max_size=2)))),
            'compute_inverses': draw(st.booleans()), 'include_factors': draw(st.sampled_from([True, True, True, False])),
            'perturb_fresh': draw(st.booleans()), 'reverse_layers': draw(st.booleans()),
            'schedule': draw(st.lists(st.integers(0, 63), max_size=150)), 'flip': draw(st.booleans()), 'rollback_live': draw(st.booleans())}
    case.update(draw(placement(W, method, prediv)))
    if draw(st.integers(0, 3)) == 0 and len(case['spec']['layers']) >= 2:
        # nested containers: layer names such as '0' and '1.0' (one a dotted suffix of the other)
        case['spec'] = dict(case['spec'], nest_from=draw(st.integers(1, len(case['spec']['layers']) - 1)))
    case['cast0'] = draw(st.sampled_from([False, False, False, True]))
    return case


class C09(Prop):
    id = 'C09'
    title = 'Checkpoints round-trip and resuming is equivalent to never stopping'
    rule = ('Hypothesis draws a run of T in 1..8 steps (world of one) or 1..5 (W in {2,4,6} simulated ranks, every divisor as worker count, '
            'bucketed/symmetric variants, drawn schedule) with intervals and the other hyper-parameters constant or table-driven, both methods, '
            'pre-division, hook/no-hook, accumulation. For each checkpoint boundary c (quick: 1-2 drawn, thorough: every c in 0..T) the state is '
            'saved, pickled, and loaded into a fresh preconditioner on a fresh copy of the model, with include_factors / compute_inverses drawn '
            'subject to the documented requirement; the fresh preconditioner is optionally constructed with different constant hyper-parameters and the saved layer dictionary optionally handed over in reversed key order (both valid). Oracle: (a) steps, scalar hyper-parameters and every factor restored bit-exactly on every '
            'rank, no exception, no protocol violation; (b) continuation bit-identical to the uninterrupted twin when step c is a refresh step or '
            'the live second-order data had been computed from the saved factors at the same (baked) damping, otherwise bit-identical to the run '
            'that recomputes second-order data from its own factors at boundary c (same-object reload); (c) a state with a layer removed or '
            'added raises ValueError; (d) a state dict kept alive in memory (not pickled) is unchanged after further training steps; (e) loading the checkpoint of boundary c back into the SAME live preconditioner after training to T (weights put back) continues bit-identically to resuming in a fresh preconditioner. Non-trivial: 0 < c < T with a non-refresh step in the continuation; multi-rank share W >= 2.')
    assumptions = ['compute_inverses=False only when step c is a refresh step; include_factors=False only when step c is both a factor-update and a refresh step (documented)',
                   'the numerical correctness of second-order data recomputed from restored factors is decided against refkfac in C05 (ckpt operation); here relations are bit-exact',
                   'vkit/simdist for the multi-rank share']
    examples = {'quick': 110, 'thorough': 300}
    shards = {'quick': 8, 'thorough': 16}
    shrink_budget_s = {'quick': 30.0, 'thorough': 180.0}
    required_labels = {'quick': ['nontrivial=True', 'multi_rank=True', 'recompute_branch=True', 'identical_branch=True'],
                       'thorough': ['nontrivial=True', 'multi_rank=True', 'recompute_branch=True', 'identical_branch=True', 'no_factors=True']}

    def strategy(self, tier):
        return _case([1, 1, 2, 4] if tier == 'quick' else [1, 1, 2, 4, 6], tier == 'thorough')

    def run_case(self, case):
        import torch
        from vkit import kaisa

        W, T = case['W'], case['T']
        hp = case['hp']
        labels = {'W': W, 'multi_rank': W > 1, 'method': case['method'], 'prediv': case['prediv'], 'T': T, 'cast_after_construction': bool(case.get('cast0')),
                  'strategy': 'COMM' if case['k'] == W else 'MEM' if case['k'] == 1 else 'HYBRID'}
        train = lambda t: {'op': 'train', 'seed': case['data_seed'] + t}

        def run(program, observe=()):
            if case.get('cast0'):
                # the training script casts the model right after building the preconditioner (model.double()); a resuming script builds
                # the model in the original dtype, constructs the preconditioner, loads the state and then casts, in the same order
                orig = case.get('param_dtype', 'float32')
                program = [{'op': 'cast', 'dtype': 'float32' if orig == 'float64' else 'float64'}] + \
                    [dict(o, fresh_dtype=orig) if o['op'] == 'load' else o for o in program]
            if W == 1:
                try:
                    return [kaisa.run_single(case, program, observe=observe)], None
                except Exception as e:  # noqa: BLE001
                    import traceback
                    return None, f'{type(e).__name__}: {e} :: {traceback.format_exc()[-600:]}'
            res = kaisa.run_sim(case, program, case['schedule'], case['flip'], observe=observe)
            if res.timed_out:
                raise RuntimeError('simulation timed out (harness)')
            if not res.ok:
                return None, str(res.violations[0])
            return res.results, None

        c0 = case['cs'][0]
        full, err = run([train(t) for t in range(c0)] + [{'op': 'snapshot'}] + [train(t) for t in range(c0, T)] + [{'op': 'check_snapshot'}])
        if err:
            return violation(f'uninterrupted run failed: {err}', 'uninterrupted-run', labels=labels)
        for rank in range(len(full)):
            mutated = [r for r in full[rank] if r['op'] == 'check_snapshot'][0]['snapshot_mutated']
            if mutated:
                return violation(f'state_dict() taken at boundary {c0} and kept in memory changed while training continued to step {T} (rank {rank}): {mutated}',
                                 'saved-state-mutated', labels=labels)
        # (f) loading one state dict must not modify another one kept in memory: two states are taken (boundaries c0 >= 1 and T), the
        #     older one is loaded into the live preconditioner (the very dict, or a copy), then both are compared with deep copies
        if 1 <= c0 < T:
            two, err = run([train(t) for t in range(c0)] + [{'op': 'snapshot', 'slot': 'a'}] + [train(t) for t in range(c0, T)]
                           + [{'op': 'snapshot', 'slot': 'b'}, {'op': 'rollback', 'slot': 'a', 'live': bool(case.get('rollback_live')), 'compute_inverses': True},
                              {'op': 'check_snapshot', 'slot': 'a'}, {'op': 'check_snapshot', 'slot': 'b'}])
            if err:
                return violation(f'loading the state of boundary {c0} into the live preconditioner at step {T} failed: {err}', 'rollback-failed', labels=labels)
            for rank in range(len(two)):
                for which, r in zip(('the loaded state itself', f'another state (taken at step {T}) kept in memory'),
                                    [r for r in two[rank] if r['op'] == 'check_snapshot']):
                    if r['snapshot_mutated']:
                        return violation(f'load_state_dict(state of boundary {c0}) into the live preconditioner modified {which} (rank {rank}): '
                                         f'{r["snapshot_mutated"]}', 'saved-state-mutated', labels=labels)
        nontrivial = recompute_branch = identical_branch = no_factors = False
        for c in case['cs']:
            refresh_c = c % _at(hp['inv_update_steps'], c) == 0
            factor_c = c % _at(hp['factor_update_steps'], c) == 0
            ci = case['compute_inverses'] if refresh_c else True
            inc = case['include_factors'] if (refresh_c and factor_c) else True
            no_factors |= not inc
            prog = [train(t) for t in range(c)] + [{'op': 'load', 'compute_inverses': ci, 'include_factors': inc, 'perturb_fresh': case.get('perturb_fresh', False),
                                                      'reverse_layers': case.get('reverse_layers', False)}] + [train(t) for t in range(c, T)]
            res, err = run(prog, observe=('state',))
            where = f'checkpoint at boundary {c} of {T} (compute_inverses={ci}, include_factors={inc}, W={W}, k={case["k"]}, method={case["method"]}, prediv={case["prediv"]}, hp={hp})'
            if err:
                return violation(f'{where}: save/load/continue failed: {err}', 'load-failed', labels=labels)
            # (a) round trip on every rank
            for rank in range(len(res)):
                ld = [r for r in res[rank] if r['op'] == 'load'][0]
                saved, loaded = ld['saved'], ld['loaded']
                if loaded['steps'] != c or saved['steps'] != c:
                    return violation(f'{where}: rank {rank} steps saved={saved["steps"]} restored={loaded["steps"]}', 'roundtrip-steps', labels=labels)
                for key in ('factor_update_steps', 'inv_update_steps', 'damping', 'factor_decay', 'kl_clip', 'lr'):
                    if (key in saved) != (not isinstance(hp[key], dict)):
                        return violation(f'{where}: scalar hyper-parameter {key} {"missing from" if key not in saved else "unexpectedly in"} the state', 'roundtrip-hyperparameter', labels=labels)
                    if key in saved and (saved[key] != hp[key] or loaded.get(key) != hp[key]):
                        return violation(f'{where}: rank {rank} {key}: saved {saved.get(key)!r}, restored {loaded.get(key)!r}, configured {hp[key]!r}', 'roundtrip-hyperparameter', labels=labels)
                if inc:
                    for n, fs in saved['layers'].items():
                        for f in ('A', 'G'):
                            a, b = fs[f], loaded['layers'][n][f]
                            if (a is None) != (b is None) or (a is not None and (a.dtype != b.dtype or not torch.equal(a, b))):
                                return violation(f'{where}: rank {rank} factor {f} of layer {n} not restored exactly', 'roundtrip-factor', labels=labels)
                    if c > 0 and any(fs['A'] is None or fs['G'] is None for fs in saved['layers'].values()):
                        return violation(f'{where}: rank {rank} saved state lacks factors after {c} steps', 'roundtrip-factor', labels=labels)
            if not inc and c > 0:
                continue    # resuming without factors restarts the running averages: no equality is claimed
            # (b) continuation
            last_refresh = max([s for s in range(c) if s % _at(hp['inv_update_steps'], s) == 0], default=None)
            baked = case['method'] == 'inverse' or case['prediv']
            same = refresh_c or c == 0 or (
                last_refresh is not None
                and not any(s % _at(hp['factor_update_steps'], s) == 0 for s in range(last_refresh + 1, c))
                and (not baked or _at(hp['damping'], last_refresh) == _at(hp['damping'], c)))
            if same:
                ref, what = full, 'the uninterrupted run'
                identical_branch = True
            else:
                ref, err = run([train(t) for t in range(c)] + [{'op': 'reload_live'}] + [train(t) for t in range(c, T)])
                if err:
                    return violation(f'{where}: same-object reload failed: {err}', 'load-failed', labels=labels)
                what = 'the run that recomputes second-order data from its own factors at this boundary'
                recompute_branch = True
            for rank in range(len(res)):
                got = [r for r in res[rank] if r['op'] == 'train']
                exp = [r for r in ref[rank] if r['op'] == 'train']
                for t in range(c, T):
                    for n, g in exp[t]['after'].items():
                        g2 = got[t]['after'][n]
                        if (g is None) != (g2 is None) or (g is not None and not torch.equal(g, g2)):
                            d = (g - g2).abs().max().item() / max(g.abs().max().item(), 1e-300) if g is not None and g2 is not None else float('nan')
                            return violation(f'{where}: rank {rank} step {t}: gradient of {n} after resuming differs from {what} (relative max diff {d:.3e})',
                                             'resume-diverges', labels=labels)
            # (e) rolling back IN PLACE (same preconditioner object, weights put back) must behave like resuming in a fresh one
            if 1 <= c < T and inc:       # c = 0: a state without factors does not overwrite the factors of a live object (outside the statement)
                rb, err = run([train(t) for t in range(c)] + [{'op': 'snapshot'}] + [train(t) for t in range(c, T)]
                              + [{'op': 'rollback', 'compute_inverses': ci, 'live': bool(case.get('rollback_live'))}] + [train(t) for t in range(c, T)])
                if err:
                    return violation(f'{where}: rollback into the live preconditioner failed: {err}', 'rollback-failed', labels=labels)
                for rank in range(len(res)):
                    second = [r for r in rb[rank] if r['op'] == 'train'][T:]
                    fresh = [r for r in res[rank] if r['op'] == 'train'][c:]
                    for j, (a, b) in enumerate(zip(second, fresh)):
                        for n, g in b['after'].items():
                            g2 = a['after'][n]
                            if (g is None) != (g2 is None) or (g is not None and not torch.equal(g, g2)):
                                d = (g - g2).abs().max().item() / max(g.abs().max().item(), 1e-300) if g is not None and g2 is not None else float('nan')
                                return violation(f'{where}: rank {rank} step {c + j}: after rolling back to this boundary in place (same preconditioner object) the gradient of {n} '
                                                 f'differs from resuming in a fresh preconditioner (relative max diff {d:.3e})', 'rollback-diverges', labels=labels)
            if 0 < c < T and any(s % _at(hp['inv_update_steps'], s) != 0 for s in range(c, T)):
                nontrivial = True
        # (c) layer-count mismatch must be rejected (world of one only: no collectives involved)
        if W == 1:
            bad = self._reject(case)
            if bad:
                return violation(bad, 'mismatch-accepted', labels=labels)
        labels.update({'nontrivial': nontrivial, 'recompute_branch': recompute_branch, 'identical_branch': identical_branch, 'no_factors': no_factors})
        return passed(nontrivial, labels)

    def _reject(self, case):
        import warnings
        import torch
        from vkit import kaisa, kmodel
        from kfac.preconditioner import KFACPreconditioner
        r = kaisa.RankRunner(case, 0, 1, ())
        r.run([{'op': 'train', 'seed': 1}])
        sd = r.pre.state_dict()
        names = list(sd['layers'])
        variants = []
        if names:
            less = dict(sd)
            less['layers'] = {n: v for n, v in sd['layers'].items() if n != names[-1]}
            variants.append(('one layer removed', less))
        more = dict(sd)
        more['layers'] = dict(sd['layers'])
        more['layers']['extra.layer'] = {'A': torch.eye(2), 'G': torch.eye(2)}
        variants.append(('one layer added', more))
        for what, state in variants:
            model = kmodel.build_model(case['spec'])
            with warnings.catch_warnings():
                warnings.simplefilter('ignore')
                pre = KFACPreconditioner(model, **r.kw)
                before = pre.state_dict()
                try:
                    pre.load_state_dict(state)
                except ValueError:
                    # whatever the rejected call did, a valid state loaded afterwards (here: the state of a fresh preconditioner, whose
                    # factors are still None) must be restored exactly - nothing of the rejected state may survive
                    import pickle
                    try:
                        pre.load_state_dict(pickle.loads(pickle.dumps(before)), compute_inverses=False)
                    except Exception as e:  # noqa: BLE001
                        return f'after a rejected state with {what}, loading a valid state raised {type(e).__name__}: {e}'
                    after = pre.state_dict()
                    for key in set(before) | set(after):
                        if key != 'layers' and before.get(key) != after.get(key):
                            return f'a valid state loaded after a rejected one ({what}) is not restored: {key} = {after.get(key)!r}, saved {before.get(key)!r}'
                    for n in before['layers']:
                        for f in ('A', 'G'):
                            a, b = before['layers'][n][f], after['layers'][n][f]
                            if (a is None) != (b is None) or (a is not None and not torch.equal(a, b)):
                                return (f'a valid state loaded after a rejected one ({what}) is not restored: factor {f} of layer {n} is '
                                        f'{"None" if b is None else "a tensor left behind by the rejected state"}, saved {"None" if a is None else "a tensor"}')
                    continue
                except Exception as e:  # noqa: BLE001
                    return f'state with {what}: raised {type(e).__name__} instead of ValueError: {e}'
            return f'state with {what} was accepted by load_state_dict'
        return None


PROP = C09()
