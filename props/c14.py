"""C14 - triangular packing of symmetric matrices is lossless; invalid shapes are rejected before communication."""

from __future__ import annotations

from hypothesis import strategies as st

from vkit.runner import Prop, passed, violation

DTYPES = ['float64', 'float32', 'bfloat16', 'float16']
LAYOUTS = ['contiguous', 'transposed', 'strided']


def sym_matrix(torch, n, dtype, salt=0):
    i = torch.arange(n).view(-1, 1)
    j = torch.arange(n).view(1, -1)
    lo, hi = torch.minimum(i, j), torch.maximum(i, j)
    v = lo * n + hi + salt
    if dtype in (torch.bfloat16, torch.float16):
        v = v % 251
    elif dtype == torch.float32:
        v = v % (2 ** 24 - 3)
    return (v + 1).to(dtype)


def with_layout(torch, x, layout):
    n = x.shape[0]
    if layout == 'contiguous':
        return x.contiguous()
    if layout == 'transposed':
        return x.t().contiguous().t()          # symmetric values, column-major memory
    big = torch.zeros(2 * n + 1, 2 * n + 3, dtype=x.dtype)
    view = big[1:2 * n + 1:2, 2:2 * n + 2:2]
    view.copy_(x)
    return view


class C14(Prop):
    id = 'C14'
    title = 'Triangular packing of symmetric matrices is lossless'
    rule = ('Exhaustive part ("pack"): every n in 1..256 plus 13 larger sizes up to 1025 and n=5793, whose packed triangle exceeds 2^24 entries (quick) / 1..1536 plus 8 sizes up to 8193 (thorough; above 2048 float32 contiguous only) x dtypes {float64,float32,bfloat16,float16} x layouts, plus for n <= 64 a matrix with the largest finite values and infinities (each size is preceded by two unpack calls with a packed vector of the wrong length, which may fail but must not affect the valid calls) '
            '{contiguous, transposed (column-major) view, strided slice of a larger matrix} with position-revealing symmetric contents; '
            'fill_triu(shape, get_triu(x)) == x bit-exactly, get_triu has n(n+1)/2 elements and (n <= 48) equals the row-major upper triangle '
            'from a Python double loop; the input is left unmodified. Communication part ("comm"): W in {2,3}, n in 1..24, dtype, schedule '
            'drawn: symmetric allreduce / allreduce_bucketed / broadcast on simulated ranks return bit-identical results to their dense forms '
            'and send n(n+1)/2 elements. Rejection part ("reject"): drawn shapes of rank 0-4 that are not square 2-d (wide, tall, 1-d, 3-d, '
            '0-d) with symmetric=True in a group of size > 1 must raise NonSquareTensorError from all three entry points with no collective in '
            'the trace and nothing queued in a bucket - also when the bucket already holds a valid tensor and the capacity or dtype is such that queueing the invalid one would first communicate that bucket (the held tensor must still come back right after the flush). One "pack" case covers all 12 dtype/layout combinations of one n (inner_evaluations). '
            'Non-trivial: n >= 3, or a non-contiguous layout (always present), or a rejected shape.')
    assumptions = ['in a group of one nothing is communicated and the input is returned unchanged (rejection is not required there)',
                   'vkit/simdist for the communication part']
    exhaustive = True
    examples = {'quick': 120, 'thorough': 800}
    shards = {'quick': 8, 'thorough': 16}
    enum_shards = {'quick': 4, 'thorough': 16}
    required_labels = {'quick': ['kind=pack', 'kind=comm', 'kind=reject', 'wide=True', 'subgroup=True'], 'thorough': ['kind=pack', 'kind=comm', 'kind=reject', 'wide=True']}

    def strategy(self, tier):
        comm = st.fixed_dictionaries({
            'kind': st.just('comm'), 'W': st.sampled_from([2, 3, 4, 4]), 'n': st.integers(1, 24), 'dtype': st.sampled_from(DTYPES),
            'layout': st.sampled_from(LAYOUTS), 'cap_bytes': st.sampled_from([1, 64, 25_000_000]), 'src': st.integers(0, 3),
            'group': st.one_of(st.none(), st.lists(st.integers(0, 3), min_size=2, max_size=3, unique=True).map(sorted),
                               st.sampled_from([[1, 2], [1, 3], [2, 3], [1, 2, 3], [0, 2], [0, 2, 3], [0, 1, 3]])),
            'schedule': st.lists(st.integers(0, 31), max_size=40), 'flip': st.booleans()})
        two_d = st.tuples(st.integers(1, 6), st.integers(1, 6)).filter(lambda t: t[0] != t[1]).map(list)
        shape = st.one_of(two_d, two_d, two_d, st.just([]), st.lists(st.integers(1, 5), min_size=1, max_size=1),
                          st.lists(st.integers(1, 4), min_size=3, max_size=3), st.lists(st.integers(1, 3), min_size=4, max_size=4),
                          st.sampled_from([[2, 2, 1], [1, 3, 3], [3, 3, 3], [1, 2], [2, 1], [1, 1, 1]]))
        reject = st.fixed_dictionaries({
            'kind': st.just('reject'), 'W': st.sampled_from([2, 3]), 'shape': shape, 'dtype': st.sampled_from(DTYPES),
            'prefill': st.sampled_from(['none', 'overflow', 'dtype', 'fits']),
            'schedule': st.lists(st.integers(0, 31), max_size=10)})
        return st.one_of(comm, reject)

    def enumerate(self, tier, shard, nshards):
        hi = 256 if tier == 'quick' else 1536
        # interleave large and small n across shards
        sizes = list(range(1, hi + 1))
        if tier == 'quick':
            # a sparse sample of larger sizes (typical factor sizes of real layers) on top of the complete range 1..256
            sizes += [257, 300, 301, 320, 384, 500, 512, 513, 768, 1000, 1024, 1025, 5793]
        else:
            sizes += [2048, 4096, 4097, 5792, 5793, 5794, 6145, 8193]
        for n in sizes:
            if n % nshards == shard:
                yield {'kind': 'pack', 'n': n}

    def summarize(self, infos):
        return {'inner_evaluations': sum(i.get('inner', 0) for i in infos)}

    def run_case(self, case):
        if case['kind'] == 'pack':
            return self._pack(case)
        if case['kind'] == 'comm':
            return self._comm(case)
        return self._reject(case)

    def _pack(self, case):
        import torch
        from kfac.distributed import fill_triu, get_triu
        n = case['n']
        inner = 0
        # very large matrices (packed triangle beyond 2^24 entries, where float32 index arithmetic stops being exact): one dtype, one layout
        dtypes, layouts = (DTYPES, LAYOUTS) if n <= 2048 else (['float32'], LAYOUTS[:1])
        if n <= 1025:
            # calls that cannot succeed (packed vector of the wrong length, before the first valid call for this shape in the process)
            # may raise whatever they like, but must not spoil the valid calls that follow
            for wrong in (n * (n + 1) // 2 + 1, max(0, n * (n + 1) // 2 - 1)):
                try:
                    fill_triu((n, n), torch.zeros(wrong))
                except Exception:  # noqa: BLE001
                    pass
        for dn in dtypes:
            dtype = getattr(torch, dn)
            base = sym_matrix(torch, n, dtype)
            if n <= 64:
                # the same with extreme finite / infinite entries (largest finite value on the diagonal and in one off-diagonal pair,
                # an infinite diagonal entry): packing copies values, it must never do arithmetic on them
                ext = base.clone()
                big = torch.finfo(dtype).max
                ext[0, 0] = big
                ext[n - 1, n - 1] = float('inf') if n > 1 else big
                if n > 2:
                    ext[1, 1] = -big
                    ext[0, n - 1] = ext[n - 1, 0] = big
                    ext[1, 2] = ext[2, 1] = float('-inf')
                y = fill_triu(ext.shape, get_triu(ext))
                inner += 1
                if not torch.equal(y, ext):
                    bad = (y != ext).nonzero()[0].tolist()
                    return violation(f'n={n} dtype={dn}: fill_triu(get_triu(x)) != x for a matrix with extreme entries at {bad}: {y[tuple(bad)].item()} vs '
                                     f'{ext[tuple(bad)].item()}', 'roundtrip')
            for layout in layouts:
                x = with_layout(torch, base, layout)
                keep = x.clone()
                t = get_triu(x)
                inner += 1
                where = f'n={n} dtype={dn} layout={layout}'
                if t.dim() != 1 or t.numel() != n * (n + 1) // 2:
                    return violation(f'{where}: get_triu returned shape {tuple(t.shape)}, expected ({n * (n + 1) // 2},)', 'triu-size')
                if t.dtype != dtype:
                    return violation(f'{where}: get_triu changed dtype to {t.dtype}', 'dtype')
                if n <= 48:
                    ref = [x[i, j].item() for i in range(n) for j in range(i, n)]
                    if t.tolist() != ref:
                        return violation(f'{where}: get_triu is not the row-major upper triangle', 'triu-order')
                y = fill_triu(x.shape, t)
                if tuple(y.shape) != (n, n) or y.dtype != dtype:
                    return violation(f'{where}: fill_triu returned shape {tuple(y.shape)} dtype {y.dtype}', 'fill-shape')
                if not torch.equal(y, keep):
                    bad = (y != keep).nonzero()[0].tolist()
                    return violation(f'{where}: fill_triu(get_triu(x)) != x at {bad}: {y[tuple(bad)].item()} vs {keep[tuple(bad)].item()}', 'roundtrip')
                if not torch.equal(x, keep):
                    return violation(f'{where}: packing modified its input', 'input-modified')
        return passed(True, {'kind': 'pack', 'n_ge_3': n >= 3}, {'inner': inner})

    def _comm(self, case):
        import torch
        import torch.distributed as dist
        from vkit import simdist
        from kfac.distributed import TorchDistributedCommunicator
        W, n = case['W'], case['n']
        dtype = getattr(torch, case['dtype'])
        cap_mb = (case['cap_bytes'] + 0.5) / 1e6
        members = sorted({r for r in (case.get('group') or range(W)) if r < W})
        if len(members) < 2:
            members = list(range(W))
        sub = members != list(range(W))
        src = members[case['src'] % len(members)]       # a global rank that is a member of the group

        def mk(rank):
            return with_layout(torch, sym_matrix(torch, n, dtype, salt=rank * 7 + 1), case['layout'])

        def prog(rank):
            comm = TorchDistributedCommunicator(cap_mb)
            group = dist.new_group(members) if sub else None
            out = {}
            if rank not in members:
                return None

            def val(f):
                return f.wait() if not isinstance(f, torch.Tensor) else f
            for name, symmetric in (('sym', True), ('dense', False)):
                simdist.set_phase(name)
                out[name + '_ar'] = val(comm.allreduce(mk(rank), average=True, symmetric=symmetric, group=group))
                f = comm.allreduce_bucketed(mk(rank), average=False, symmetric=symmetric, group=group)
                comm.flush_allreduce_buckets()
                out[name + '_arb'] = val(f)
                out[name + '_bc'] = val(comm.broadcast(mk(rank).contiguous().clone(), src=src, symmetric=symmetric, group=group))
            return out

        res = simdist.Sim(W, case['schedule'], flip_timing=case['flip']).run(prog, timeout=60)
        if res.timed_out:
            raise RuntimeError('simulation timed out (harness)')
        labels = {'kind': 'comm', 'W': W, 'dtype': case['dtype'], 'layout': case['layout'], 'subgroup': sub}
        if not res.ok:
            return violation(f'protocol violation {res.violations[0]}', 'protocol:' + res.violations[0].kind, labels=labels)
        for rank in members:
            o = res.results[rank]
            for op in ('ar', 'arb', 'bc'):
                a, b = o['sym_' + op], o['dense_' + op]
                if tuple(a.shape) != (n, n) or a.dtype != b.dtype or not torch.equal(a, b):
                    return violation(f'rank {rank}: symmetric {op} differs from dense {op} for n={n} dtype={case["dtype"]} layout={case["layout"]} group={members} src={src}: '
                                     f'{a.flatten()[:5].tolist()} vs {b.flatten()[:5].tolist()}', 'sym-vs-dense', labels=labels)
            for ph, exp in (('sym', n * (n + 1) // 2), ('dense', n * n)):
                sent = [e['numel'] for e in res.trace[rank] if e.get('phase') == ph and e['kind'] in ('all_reduce', 'broadcast')]
                if sent != [exp, exp, exp]:
                    return violation(f'rank {rank}: {ph} communication sent {sent} elements, expected three messages of {exp}', 'elements-sent', labels=labels)
        return passed(True, labels)

    def _reject(self, case):
        import torch
        from vkit import simdist
        from kfac.distributed import NonSquareTensorError, TorchDistributedCommunicator
        W = case['W']
        dtype = getattr(torch, case['dtype'])
        shape = case['shape']

        pre = case.get('prefill', 'none')

        def prog(rank):
            # optionally the bucket already holds a valid tensor, and the capacity / dtype are such that queueing the invalid
            # tensor would first have to communicate that bucket: rejection must still come before any communication
            cap_mb = 25.0 if pre != 'overflow' else (8 + 0.5) / 1e6
            comm = TorchDistributedCommunicator(cap_mb)
            outcomes = {}
            held = None
            if pre != 'none':
                simdist.set_phase('prefill')
                held = comm.allreduce_bucketed(torch.full((2,), float(rank + 1), dtype=torch.float64 if pre == 'dtype' else dtype))
            simdist.set_phase('reject')
            for op in ('allreduce', 'allreduce_bucketed', 'broadcast'):
                t = torch.ones(shape, dtype=dtype)
                try:
                    if op == 'broadcast':
                        comm.broadcast(t, src=0, symmetric=True)
                    else:
                        getattr(comm, op)(t, symmetric=True)
                    outcomes[op] = 'accepted'
                except NonSquareTensorError:
                    outcomes[op] = 'rejected'
                except Exception as e:  # noqa: BLE001
                    outcomes[op] = f'{type(e).__name__}: {e}'
            simdist.set_phase('flush')
            comm.flush_allreduce_buckets()
            if held is not None:
                v = held.wait() if not isinstance(held, torch.Tensor) else held
                outcomes['_held'] = v.tolist()
            return outcomes

        res = simdist.Sim(W, case['schedule']).run(prog, timeout=60)
        if res.timed_out:
            raise RuntimeError('simulation timed out (harness)')
        wide = len(shape) == 2 and shape[0] < shape[1]
        labels = {'kind': 'reject', 'rank_of_shape': len(shape), 'wide': wide, 'prefill': pre}
        exp_held = [float(sum(range(1, W + 1)))] * 2
        for rank in range(W):
            evs = [e for e in res.trace[rank] if e['kind'] != 'new_group' and e.get('phase') != 'flush']
            o = res.results[rank]
            if o is not None:
                if '_held' in o and o.pop('_held') != exp_held:
                    return violation(f'rank {rank}: the valid tensor queued before the rejected call came back wrong after the flush', 'prefill-corrupted', labels=labels)
                for op, what in o.items():
                    if what != 'rejected':
                        return violation(f'rank {rank}: {op}(symmetric=True) of a tensor of shape {shape} was not rejected with NonSquareTensorError: {what}; '
                                         f'collectives issued: {[(e["kind"], e.get("numel")) for e in evs]}', 'not-rejected', labels=labels)
            if evs:
                return violation(f'rank {rank}: collectives {[(e["kind"], e.get("numel"), e.get("phase")) for e in evs]} were issued for the invalid shape {shape}',
                                 'communicated-before-reject', labels=labels)
        if not res.ok:
            return violation(f'protocol violation {res.violations[0]}', 'protocol:' + res.violations[0].kind, labels=labels)
        return passed(True, labels)


PROP = C14()
