"""C05 - update intervals and hyper-parameter schedules are honoured over any history (model-based, lock-step reference)."""

from __future__ import annotations

from hypothesis import strategies as st

from vkit import gens
from vkit.runner import Prop, passed, violation

HP_VALUES = {
    'factor_update_steps': [1, 1, 2, 3, 4, 5],
    'inv_update_steps': [1, 1, 2, 3, 4, 5],
    'damping': [0.01, 0.1, 1.0, 0.003, 0.03],
    'factor_decay': [0.95, 0.5, 1.0, 0.8, 0.3],
    'kl_clip': [1e30, 1e-3, 1e-2, 1e-6, None],
    'lr': [0.1, 1.0, 0.01, 0.0],
}
SCHED_FACTORS = {
    'factor_update_steps': [1, 2, 1.5, 1],
    'inv_update_steps': [1, 2, 1.5, 1],
    'damping': [0.5, 2.0, 1.0, 4.0],
    'factor_decay': [1.0, 0.9, 0.5],
    'kl_clip': [0.5, 2.0, 1.0],
    'lr': [0.5, 2.0, 1.0],
}


@st.composite
def _case(draw, max_ops):
    method = draw(st.sampled_from(['eigen', 'eigen', 'inverse']))
    prediv = draw(st.booleans()) if method == 'eigen' else False
    hp = {k: draw(gens.table_or_const(v)) for k, v in HP_VALUES.items()}
    for k in ('damping', 'factor_decay', 'kl_clip', 'lr'):
        if draw(st.integers(0, 7)) == 0:
            # a callable reading live state that the loop changes between iterations (the optimizer-lr idiom)
            hp[k] = {'live': draw(st.lists(st.sampled_from(HP_VALUES[k]), min_size=2, max_size=4))}
    consts = [k for k, v in hp.items() if not isinstance(v, dict) and v is not None]     # a disabled (None) clip cannot be scheduled
    sched_keys = draw(st.lists(st.sampled_from(consts), unique=True, max_size=3)) if consts and draw(st.booleans()) else []
    scheduler = {k: {'table': draw(st.lists(st.sampled_from(SCHED_FACTORS[k]), min_size=1, max_size=4))} for k in sched_keys}
    accum = draw(st.sampled_from([1, 1, 2, 3]))
    in_hook = draw(st.booleans())
    n_ops = draw(st.integers(1, max_ops))
    bystander = draw(st.sampled_from([False, False, False, True]))
    ops = []
    kinds = ['train'] * 6 + ['eval', 'reset_batch', 'ckpt', 'snapshot', 'rollback', 'inspect'] + (['sched_step'] * 2 if scheduler else [])
    for _ in range(n_ops):
        k = draw(st.sampled_from(kinds))
        if k == 'train':
            op = {'op': 'train', 'seed': draw(st.integers(0, 9999))}
            if accum > 1 and draw(st.booleans()):
                op['sizes'] = draw(st.lists(st.integers(1, 4), min_size=accum, max_size=accum))
            if not in_hook and draw(st.integers(0, 5)) == 0:
                op['reset_after'] = draw(st.integers(1, accum))
            if draw(st.integers(0, 4)) == 0:
                op['extra_fwd'] = draw(st.integers(1, 3))     # only honoured on steps that are not factor-update steps
            if not in_hook and draw(st.integers(0, 4)) == 0:
                # a train-mode no_grad forward pass inside the window of a factor-update step (factors updated in step()): the layer has
                # then seen one more input batch than output gradients, and each factor is the mean over what IT has seen
                op['fwd_only_at'] = draw(st.integers(0, 2))
            if bystander:
                # micro-batch indices after which the bystander model runs one micro-batch of its own
                op['by'] = sorted(draw(st.sets(st.integers(0, accum - 1), max_size=accum)))
            ops.append(op)
        elif k == 'eval':
            ops.append({'op': 'eval', 'seed': draw(st.integers(0, 9999))})
        elif k == 'ckpt':
            ops.append({'op': 'ckpt', 'compute_inverses': draw(st.booleans()), 'perturb': draw(st.booleans())})
        else:
            ops.append({'op': k})
    return {'spec': draw(gens.model_spec(max_layers=3, max_dim=5, max_out=4)), 'method': method, 'prediv': prediv,
            'in_hook': in_hook, 'accum': accum, 'N': draw(st.integers(1, 4)), 'style': draw(gens.style_strategy()),
            'zero_to_none': draw(st.booleans()), 'bystander': bystander,
            'hp': hp, 'scheduler': scheduler, 'program': ops}


class C05(Prop):
    id = 'C05'
    title = 'Update intervals and hyperparameter schedules are honoured over any history'
    rule = ('Model-based testing: Hypothesis draws a configuration (model of 1-3 layers, method, pre-division, hook/no-hook, accumulation 1-3, '
            'each of the six hyper-parameters a constant or a lookup table t[step % len] incl. interval pairs that are not multiples, optionally a '
            'LambdaParamScheduler over up to 3 constant parameters with its own factor tables) and a program of 1-20 (quick) / 1-30 (thorough) '
            'operations {train iteration (optionally unequal micro-batch sizes, optionally a mid-iteration reset_batch in no-hook mode followed by '
            'a full set of micro-batches; optionally 1-3 extra forward-only train-mode passes when the step is not a factor-update step), eval-mode pass, reset_batch, scheduler.step(), checkpoint round trip into a fresh preconditioner, '
            'inspect = repr / property reads / state_dict / memory_usage (read-only looking; all library log records are produced and formatted throughout), snapshot = keep state_dict() alive in memory, rollback = load that kept dict into the live preconditioner and restore the weights}; '
            'damping / decay / clip / lr may also be callables reading live state changed between iterations; in a quarter of the cases a '
            'second, independent model of the same architecture with its own preconditioner lives in the same process and runs its own '
            'micro-batches and steps in between (it must not influence the first). The '
            'float64 reference state machine (vkit/refkfac) runs in lock-step from layer inputs/output gradients recorded on a twin model; after '
            'every train iteration: gradients == reference within the conditioning-scaled tolerance, steps == reference counter, factors change '
            '(bit-exact comparison) iff the reference says factor-update step, factors == reference recurrence. Non-trivial: the history contains '
            'a step that is a refresh but not a factor update or vice versa, or a stale step (neither), or a hyper-parameter whose value differs '
            'between two consecutive steps, and >= 1 step had an informative tolerance (<= 5e-2).')
    assumptions = ['exactly accumulation_steps train-mode passes per step; scheduler factor tables keep the intervals >= 1',
                   'compute_inverses=False is honoured only when the next step is a refresh step (documented requirement), otherwise forced True',
                   'tolerances as in DESIGN.md 2.2 (c=16 sqrt(n) eps kappa plus the factor rounding term); looser than 5e-2 counts as uninformative']
    examples = {'quick': 250, 'thorough': 600}
    shards = {'quick': 8, 'thorough': 16}
    shrink_budget_s = {'quick': 30.0, 'thorough': 180.0}
    required_labels = {'quick': ['nontrivial=True', 'stale_step=True', 'has_ckpt=True', 'has_sched=True', 'rolled_back=True', 'live_hp=True', 'bystander=True'],
                       'thorough': ['nontrivial=True', 'stale_step=True', 'has_ckpt=True', 'has_sched=True', 'method=inverse']}

    def strategy(self, tier):
        return _case(20 if tier == 'quick' else 30)

    def summarize(self, infos):
        g = sorted(i['worst_grad'] for i in infos if 'worst_grad' in i)
        f = sorted(i['worst_factor'] for i in infos if 'worst_factor' in i)
        if not g:
            return {}
        return {'grad_err_over_tol': {'p50': g[len(g) // 2], 'max': g[-1]}, 'factor_err_over_tol': {'p50': f[len(f) // 2], 'max': f[-1]},
                'train_steps_total': sum(i.get('steps', 0) for i in infos)}

    def run_case(self, case):
        from vkit.history import LockStep
        from vkit.gens import hp_callable
        ls = LockStep(case)
        labels = {'method': case['method'], 'prediv': case['prediv'], 'in_hook': case['in_hook'], 'accum': case['accum'],
                  'has_sched': bool(case['scheduler']), 'has_ckpt': any(o['op'] == 'ckpt' for o in case['program']),
                  'len': min(len(case['program']) // 5 * 5, 30)}
        hp_seen = []
        rolled_back = False
        for i, op in enumerate(case['program']):
            k = op['op']
            if k == 'train':
                hp_seen.append(tuple(ls.ref.get(x) for x in ('factor_update_steps', 'inv_update_steps', 'damping', 'factor_decay', 'kl_clip', 'lr')))
                bad = ls.train_iter(op['seed'], op.get('sizes'), op.get('reset_after'), by=op.get('by', ()), extra_fwd=op.get('extra_fwd', 0), fwd_only_at=op.get('fwd_only_at'))
            elif k == 'eval':
                bad = ls.eval_pass(op['seed'])
            elif k == 'reset_batch':
                bad = ls.reset_batch()
            elif k == 'sched_step':
                bad = ls.sched_step()
            elif k == 'inspect':
                bad = ls.inspect()
            elif k == 'snapshot':
                bad = ls.snapshot()
            elif k == 'rollback':
                if ls.snap is not None and len(ls.events) > ls.snap['at']:
                    rolled_back = True
                bad = ls.rollback()
            else:
                bad = ls.checkpoint_roundtrip(op['compute_inverses'], perturb=op.get('perturb', False))
            if bad:
                return violation(f'op {i} {op}: {bad[1]} :: method={case["method"]} prediv={case["prediv"]} in_hook={case["in_hook"]} '
                                 f'accum={case["accum"]} hp={case["hp"]} scheduler={case["scheduler"]}', bad[0], labels=labels)
        ev = ls.events
        stale = any((not fu) and (not rf) for _, fu, rf, _ in ev)
        mixed = any(fu != rf for _, fu, rf, _ in ev)
        changed = any(a != b for a, b in zip(hp_seen, hp_seen[1:]))
        nt = bool(ev) and (stale or mixed or changed) and ls.stats['informative_steps'] > 0
        labels.update({'nontrivial': nt, 'stale_step': stale, 'mixed_step': mixed, 'hp_changed': changed, 'rolled_back': rolled_back,
                       'bystander': bool(case.get('bystander')),
                       'live_hp': any(isinstance(v, dict) and 'live' in v for v in case['hp'].values())})
        return passed(nt, labels, {'worst_grad': ls.stats['worst_grad'], 'worst_factor': ls.stats['worst_factor'], 'steps': len(ev)})


PROP = C05()
