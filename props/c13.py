"""C13 - memory and communication placement follow the KAISA strategy."""

from __future__ import annotations

from collections import Counter

from hypothesis import strategies as st

from vkit import gens
from vkit.runner import Prop, passed, violation
from props.c02 import placement

ES = {'torch.float32': 4, 'torch.float64': 8, 'torch.bfloat16': 2, 'torch.float16': 2}


@st.composite
def _case(draw, worlds):
    W = draw(st.sampled_from(worlds))
    method = draw(st.sampled_from(['eigen', 'eigen', 'inverse']))
    prediv = draw(st.booleans()) if method == 'eigen' else False
    case = {'W': W, 'method': method, 'prediv': prediv,
            'spec': draw(gens.model_spec(max_layers=4, max_dim=6, max_out=5, nd_linear=False)),
            'in_hook': draw(st.booleans()), 'accum': draw(st.sampled_from([1, 1, 2])), 'N': draw(st.integers(1, 2)),
            'zero_to_none': draw(st.booleans()),
            # intervals: constants, or lookup tables t[step % len] so that the interval itself changes during the run
            'hp': {'factor_update_steps': draw(st.one_of(st.integers(1, 3), st.integers(1, 3), st.lists(st.integers(1, 3), min_size=2, max_size=4).map(lambda t: {'table': t}))),
                   'inv_update_steps': draw(st.one_of(st.integers(1, 5), st.integers(1, 5), st.lists(st.integers(1, 4), min_size=2, max_size=4).map(lambda t: {'table': t}))), 'damping': 0.01,
                   'factor_decay': 0.9, 'kl_clip': 1e-3, 'lr': 0.1},
            'inv_dtype': draw(st.sampled_from(['float32', 'float32', 'float64'])),
            'factor_dtype': draw(st.sampled_from([None, None, 'float64', 'bfloat16'])),
            'steps': draw(st.integers(1, 5)), 'schedule': draw(st.lists(st.integers(0, 63), max_size=200)),
            'flip': draw(st.booleans()),
            # optionally a checkpoint is saved and loaded into a fresh preconditioner before train step `load_at` (>= 1)
            'load_at': draw(st.sampled_from([None, None, 1, 1, 2, 3])), 'load_compute_inverses': draw(st.booleans()),
            # (honoured when factors are updated in step()) from the second iteration on, these registered layers (indices modulo the
            # number of layers) are in eval mode; every factor is still all-reduced exactly once per factor-update step
            'eval_modules': draw(st.sampled_from([None, None, None, [0], [1], [0, 2]]))}
    case.update(draw(placement(W, method, prediv)))
    if draw(st.integers(0, 3)) == 0:
        # a model with layers of different floating-point types (factor_dtype None: each layer's factors take its own dtype):
        # the last supported layer and everything after it run in float64
        layers = list(case['spec']['layers'])
        idx = max(i for i, L in enumerate(layers) if L['t'] in ('linear', 'conv'))
        if idx > 0:
            layers = layers[:idx] + [{'t': 'cast', 'dtype': 'float64'}] + [dict(L, dtype='float64') for L in layers[idx:]]
            case['spec'] = dict(case['spec'], layers=layers)
            case['factor_dtype'] = None
            case['mixed_dtypes'] = True
    if method == 'inverse' and case['factor_dtype'] == 'bfloat16':
        case['factor_dtype'] = 'float64'      # bfloat16 factors + inverse method can be exactly singular (numerical domain of C01)
    return case


class C13(Prop):
    id = 'C13'
    title = 'Memory and communication placement follow the KAISA strategy'
    rule = ('Hypothesis draws W in {1,2,3,4,6,8}, a divisor k (float or enum), colocate, heuristic, bucket cap, symmetry-aware, method x '
            'pre-division, inverse dtype, intervals (1-3, 1-5) constant or tables that change the interval during the run, 1-5 steps, model of 1-4 layers, a rank schedule. After every step each rank '
            'reports the second-order tensors it holds (walk over the layer objects) and memory_usage(); the simulator records every '
            'collective. Oracle, from the independently derived W/k x k grid and the inverse workers read from rank 0: (a) holds second-order '
            'data for a layer iff the rank is in the layer\'s gradient-worker column; (b) memory_usage() per key and total == byte sum of the '
            'walk; (c) per step and rank the multiset of K-FAC collectives (kind, group, numel, root) equals the expected one: factors '
            'all-reduced over the world exactly once per factor-update step (fused all-reduces must add up and respect the cap), n(n+1)/2 '
            'elements in symmetric mode, inverse broadcasts only on refresh steps inside the worker column from the inverse worker (none for '
            'k=1), one gradient broadcast per layer inside the receiver row from that row\'s worker (none for k=W), nothing for W=1; '
            '(d) optionally a checkpoint is loaded into a fresh preconditioner before step 1-3: the load communicates exactly the inverse '
            'broadcasts of a refresh step (none under MEM-OPT or with compute_inverses=False) and (a)-(c) keep holding afterwards. '
            'Non-trivial: W >= 2 and (a non-refresh step occurred or symmetry-aware is on).')
    assumptions = ['second-order tensors are found by reading the attributes a_inv, g_inv, qa, qg, da, dg, dgda of the layer objects',
                   'gradient averaging done by the harness (phase "ddp") is excluded from the trace comparison',
                   'vkit/simdist records exactly the collectives the code issues']
    examples = {'quick': 150, 'thorough': 500}
    shards = {'quick': 8, 'thorough': 16}
    shrink_budget_s = {'quick': 30.0, 'thorough': 180.0}
    required_labels = {'quick': ['nontrivial=True', 'strategy=HYBRID', 'strategy=MEM', 'strategy=COMM', 'symmetry=True', 'has_load=True', 'changing_interval=True', 'eval_mode_layers=True', 'mixed_dtypes=True'],
                       'thorough': ['nontrivial=True', 'strategy=HYBRID', 'strategy=MEM', 'strategy=COMM', 'symmetry=True', 'bucketed=True']}

    def strategy(self, tier):
        worlds = [1, 2, 2, 3, 4, 4, 6, 8] if tier == 'quick' else [1, 2, 3, 4, 4, 6, 8, 8, 12]
        return _case(worlds)

    def run_case(self, case):
        import torch
        from vkit import kaisa, kmodel

        W, k = case['W'], case['k']
        n = W // k
        strat = 'COMM' if k == W else 'MEM' if k == 1 else 'HYBRID'
        def _iv(v, t):
            return v['table'][t % len(v['table'])] if isinstance(v, dict) else v
        fus_v, ius_v = case['hp']['factor_update_steps'], case['hp']['inv_update_steps']
        program = []
        load_at = case.get('load_at')
        nsteps = case['steps'] if load_at is None else max(case['steps'], load_at + 1)
        load_ci = True
        for t in range(nsteps):
            if load_at is not None and t == load_at:
                # without inverses only when the next step recomputes them anyway (documented requirement)
                load_ci = True if t % _iv(ius_v, t) != 0 else bool(case.get('load_compute_inverses', True))
                program.append({'op': 'load', 'compute_inverses': load_ci})
                # queried right after the load, before any step has waited for the broadcasts the load started
                program.append({'op': 'memory_usage', 'ranks': None})
            op = {'op': 'train', 'seed': t}
            if t >= 1 and case.get('eval_modules') and not case['in_hook']:
                op['eval_modules'] = case['eval_modules']
            program.append(op)
            program.append({'op': 'memory_usage', 'ranks': None})
        labels = {'W': W, 'strategy': strat, 'method': case['method'], 'prediv': case['prediv'], 'symmetry': case['symmetry'],
                  'bucketed': case['cap'] > 0, 'in_hook': case['in_hook'], 'steps': case['steps'], 'has_load': load_at is not None,
                  'changing_interval': isinstance(fus_v, dict) or isinstance(ius_v, dict),
                  'eval_mode_layers': bool(case.get('eval_modules')) and not case['in_hook'] and nsteps >= 2,
                  'mixed_dtypes': bool(case.get('mixed_dtypes'))}
        res = kaisa.run_sim(case, program, case['schedule'], case['flip'], observe=('assignment', 'held'))
        if res.timed_out:
            raise RuntimeError('simulation timed out (harness)')
        if not res.ok:
            return violation(f'protocol violation {res.violations[0]}', 'protocol:' + res.violations[0].kind, labels=labels)
        # geometry from the spec (independent of the helpers)
        model = kmodel.build_model(case['spec'])
        mods = dict(model.named_modules())
        names = kmodel.kfac_layer_names(model)
        dims = {}
        for nm in names:
            m = mods[nm]
            b = 1 if m.bias is not None else 0
            if isinstance(m, torch.nn.Conv2d):
                dims[nm] = (m.in_channels * m.kernel_size[0] * m.kernel_size[1] + b, m.out_channels)
            else:
                dims[nm] = (m.in_features + b, m.out_features)
        asg = res.results[0][0]['assignment']
        if set(asg) != set(names):
            return violation(f'assignment layers {sorted(asg)} != registered layers {names}', 'layers', labels=labels)
        col = lambda r: tuple(range(r % n, W, n))          # worker column containing rank r
        row = lambda r: tuple(range((r // n) * n, (r // n) * n + n))
        inv_es = 8 if case['inv_dtype'] == 'float64' else 4
        sym = case['symmetry']
        tri = lambda d: d * (d + 1) // 2
        cap_bytes = int(case['cap'] * 1000 * 1000)
        non_refresh = False
        for r in range(W):
            recs = res.results[r]
            trains = [x for x in recs if x['op'] == 'train']
            load_i = next((x['i'] for x in recs if x['op'] == 'load'), None)
            mems = [x for x in recs if x['op'] == 'memory_usage' and (load_i is None or x['i'] != load_i + 1)]
            for mu in [x for x in recs if x['op'] == 'memory_usage' and load_i is not None and x['i'] == load_i + 1]:
                walk = Counter()
                for nm in names:
                    for key, v in mu['bytes'][nm].items():
                        walk[key] += v
                walk['total'] = sum(walk.values())
                rep = {kk: int(v) for kk, v in mu['memory'].items()}
                for key in set(walk) | set(rep):
                    if rep.get(key, 0) != walk.get(key, 0):
                        return violation(f'right after a checkpoint load: rank {r}: memory_usage()[{key!r}] = {rep.get(key, 0)} but the tensors held amount to '
                                         f'{walk.get(key, 0)} bytes (reported {rep}, held {dict(walk)}; W={W}, k={k}, method={case["method"]})', 'memory-usage', labels=labels)
            for t, (tr, mu) in enumerate(zip(trains, mems)):
                is_factor = t % _iv(fus_v, t) == 0
                is_refresh = t % _iv(ius_v, t) == 0
                non_refresh |= not is_refresh
                # (a) who holds second-order data
                for nm in names:
                    wcol = col(asg[nm]['inv']['A'])
                    held = tr['held'][nm]
                    should = r in wcol
                    if bool(held) != should:
                        return violation(f'step {t}: rank {r} {"holds" if held else "does not hold"} second-order data {sorted(held)} for layer {nm} '
                                         f'whose gradient-worker group is {wcol} (W={W}, k={k}, {strat})', 'second-order-placement', labels=labels)
                    if should:
                        a, g = dims[nm]
                        if case['method'] == 'inverse':
                            exp = {'a_inv': (a, a), 'g_inv': (g, g)}
                        elif case['prediv']:
                            exp = {'qa': (a, a), 'qg': (g, g), 'dgda': (g, a)}
                            # the inverse worker of A may additionally keep nothing else; receivers of the A broadcast hold qa only
                        else:
                            exp = {'qa': (a, a), 'da': (a,), 'qg': (g, g), 'dg': (g,)}
                        got = {kk: v[0] for kk, v in held.items()}
                        missing = {kk: v for kk, v in exp.items() if got.get(kk) != v}
                        if missing:
                            return violation(f'step {t}: rank {r} layer {nm}: second-order tensors {got} lack {missing}', 'second-order-content', labels=labels)
                # (b) memory usage == bytes of the walk
                walk = Counter()
                for nm in names:
                    for key, v in mu['bytes'][nm].items():
                        walk[key] += v
                walk['total'] = sum(walk.values())
                rep = {kk: int(v) for kk, v in mu['memory'].items()}
                for key in set(walk) | set(rep):
                    if rep.get(key, 0) != walk.get(key, 0):
                        return violation(f'step {t}: rank {r}: memory_usage()[{key!r}] = {rep.get(key, 0)} but the tensors held amount to '
                                         f'{walk.get(key, 0)} bytes (all keys: reported {rep}, held {dict(walk)})', 'memory-usage', labels=labels)
                # (c) collectives of this step
                i = tr['i']
                evs = [e for e in res.trace[r] if str(e.get('phase', '')).startswith(f'op{i}:train/') and not e['phase'].endswith('/ddp')
                       and e['kind'] != 'new_group']
                got_ar = [e for e in evs if e['kind'] == 'all_reduce']
                got_bc = Counter((e['group'], e['numel'], e['root']) for e in evs if e['kind'] == 'broadcast')
                other = [e for e in evs if e['kind'] not in ('all_reduce', 'broadcast')]
                if other:
                    return violation(f'step {t}: rank {r} issued unexpected collectives {[e["kind"] for e in other]}', 'unexpected-collective', labels=labels)
                exp_ar = []
                exp_bc = Counter()
                if W > 1:
                    for nm in names:
                        a, g = dims[nm]
                        if is_factor:
                            exp_ar += [tri(a) if sym else a * a, tri(g) if sym else g * g]
                        wcol = col(asg[nm]['inv']['A'])
                        if is_refresh and k > 1 and r in wcol:
                            ia, ig = asg[nm]['inv']['A'], asg[nm]['inv']['G']
                            if case['method'] == 'inverse':
                                exp_bc[(wcol, tri(a) if sym else a * a, ia)] += 1
                                exp_bc[(wcol, tri(g) if sym else g * g, ig)] += 1
                            elif case['prediv']:
                                exp_bc[(wcol, a * a, ia)] += 1
                                exp_bc[(wcol, g * g, ig)] += 1
                                exp_bc[(wcol, g * a, ig)] += 1
                            else:
                                exp_bc[(wcol, a * a, ia)] += 1
                                exp_bc[(wcol, a, ia)] += 1
                                exp_bc[(wcol, g * g, ig)] += 1
                                exp_bc[(wcol, g, ig)] += 1
                        if k < W:
                            rrow = row(r)
                            src = (set(rrow) & set(wcol)).pop()
                            exp_bc[(rrow, g * a, src)] += 1
                for e in got_ar:
                    if e['group'] != tuple(range(W)):
                        return violation(f'step {t}: rank {r} all-reduced on {e["group"]} instead of the world', 'allreduce-group', labels=labels)
                if case['cap'] > 0:
                    if sum(e['numel'] for e in got_ar) != sum(exp_ar):
                        return violation(f'step {t} ({"factor-update" if is_factor else "no factor update"}): rank {r} all-reduced '
                                         f'{sum(e["numel"] for e in got_ar)} elements over the world, expected {sum(exp_ar)} (each factor exactly once'
                                         f'{", n(n+1)/2 per symmetric factor" if sym else ""})', 'allreduce-count', labels=labels)
                    for e in got_ar:
                        nb = e['numel'] * ES[e['dtype']]
                        if nb > cap_bytes and e['numel'] not in exp_ar:
                            return violation(f'step {t}: fused all-reduce of {nb} B exceeds the cap {cap_bytes} B', 'capacity', labels=labels)
                else:
                    if Counter(e['numel'] for e in got_ar) != Counter(exp_ar):
                        return violation(f'step {t} ({"factor-update" if is_factor else "no factor update"}): rank {r} all-reduce sizes '
                                         f'{sorted(e["numel"] for e in got_ar)} != expected {sorted(exp_ar)}', 'allreduce-count', labels=labels)
                if got_bc != exp_bc:
                    extra = got_bc - exp_bc
                    miss = exp_bc - got_bc
                    return violation(f'step {t} (refresh={is_refresh}): rank {r} broadcasts (group, numel, root): unexpected {dict(extra)}, missing {dict(miss)} '
                                     f'(W={W}, k={k}, {strat}, method={case["method"]}, prediv={case["prediv"]}, symmetric={sym})', 'broadcast-placement', labels=labels)
        # (d) collectives of a checkpoint load: second-order data recomputed from the restored factors travels exactly like on a refresh
        #     step (inside the gradient-worker column, from the inverse worker; never under MEM-OPT); nothing else is communicated
        if load_at is not None:
            li = next(x['i'] for x in res.results[0] if x['op'] == 'load')
            for r in range(W):
                evs = [e for e in res.trace[r] if str(e.get('phase', '')).startswith(f'op{li}:load') and e['kind'] != 'new_group']
                got_bc = Counter((e['group'], e['numel'], e['root']) for e in evs if e['kind'] == 'broadcast')
                other = [e for e in evs if e['kind'] != 'broadcast']
                if other:
                    return violation(f'checkpoint load: rank {r} issued {[(e["kind"], e["group"]) for e in other]}', 'load-collective', labels=labels)
                exp_bc = Counter()
                if W > 1 and k > 1 and load_ci:
                    for nm in names:
                        a, g = dims[nm]
                        wcol = col(asg[nm]['inv']['A'])
                        if r not in wcol:
                            continue
                        ia, ig = asg[nm]['inv']['A'], asg[nm]['inv']['G']
                        if case['method'] == 'inverse':
                            exp_bc[(wcol, tri(a) if sym else a * a, ia)] += 1
                            exp_bc[(wcol, tri(g) if sym else g * g, ig)] += 1
                        elif case['prediv']:
                            exp_bc[(wcol, a * a, ia)] += 1
                            exp_bc[(wcol, g * g, ig)] += 1
                            exp_bc[(wcol, g * a, ig)] += 1
                        else:
                            exp_bc[(wcol, a * a, ia)] += 1
                            exp_bc[(wcol, a, ia)] += 1
                            exp_bc[(wcol, g * g, ig)] += 1
                            exp_bc[(wcol, g, ig)] += 1
                if got_bc != exp_bc:
                    return violation(f'checkpoint load (compute_inverses={load_ci}): rank {r} broadcasts (group, numel, root): unexpected '
                                     f'{dict(got_bc - exp_bc)}, missing {dict(exp_bc - got_bc)} (W={W}, k={k}, {strat}, method={case["method"]}, '
                                     f'prediv={case["prediv"]})', 'load-broadcast-placement', labels=labels)
        nt = W >= 2 and (non_refresh or sym)
        labels['nontrivial'] = nt
        return passed(nt, labels)


PROP = C13()
