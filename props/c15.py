"""C15 - layer helpers keep factors, gradients and weights in one consistent layout."""

from __future__ import annotations

from hypothesis import strategies as st

from vkit.runner import Prop, passed, violation


@st.composite
def _conv(draw):
    kh, kw = draw(st.integers(1, 3)), draw(st.integers(1, 3))
    sh, sw = draw(st.integers(1, 3)), draw(st.integers(1, 3))
    ph, pw = draw(st.integers(0, 2)), draw(st.integers(0, 2))
    mode = draw(st.sampled_from(['free', 'free', 'free', 'pointwise', 'pointwise_padded', 'same']))
    if mode.startswith('pointwise'):
        kh = kw = 1
        if mode == 'pointwise':
            sh = sw = 1
            ph = pw = 0
    elif mode == 'same':
        kh = kw = 3
        sh = sw = ph = pw = 1
    H = draw(st.integers(max(1, kh - 2 * ph), 7))
    W = draw(st.integers(max(1, kw - 2 * pw), 7))
    return {'kind': 'conv', 'cin': draw(st.integers(1, 4)), 'cout': draw(st.integers(1, 4)), 'k': [kh, kw], 's': [sh, sw],
            'p': [ph, pw], 'H': H, 'W': W,
            # mostly tiny batches; sometimes batches beyond typical chunk sizes that are not multiples of them (65, 100, 130, 257)
            'N': draw(st.one_of(st.integers(1, 4), st.integers(1, 4), st.integers(1, 4), st.sampled_from([33, 65, 100, 130, 257]))), 'bias': draw(st.booleans()),
            'seed': draw(st.integers(0, 2 ** 20)), 'int_args': draw(st.booleans()),
            'permuted': draw(st.sampled_from([False, False, True])),
            # the module itself converted to channels_last (weights and therefore weight gradients in NHWC storage)
            'weight_cl': draw(st.sampled_from([False, False, True]))}


@st.composite
def _linear(draw):
    lead = draw(st.lists(st.integers(1, 3), min_size=1, max_size=4))
    return {'kind': 'linear', 'in': draw(st.integers(1, 6)), 'out': draw(st.integers(1, 5)), 'lead': lead,
            'bias': draw(st.booleans()), 'seed': draw(st.integers(0, 2 ** 20)), 'permuted': draw(st.sampled_from([False, False, True]))}


def _rel(a, b):
    import torch
    d = (a - b).norm().item()
    n = max(b.norm().item(), 1e-300)
    return d / n if torch.isfinite(a).all() else float('inf')


class C15(Prop):
    id = 'C15'
    title = 'Layer helpers keep factors, gradients and weights in one consistent layout'
    rule = ('Hypothesis draws conv2d geometries (Cin,Cout 1-4, kernel 1-3 x 1-3, stride 1-3 x 1-3, zero padding 0-2 x 0-2, input '
            '1-7 x 1-7 incl. sizes not divisible by the stride, batch 1-4 or one of 33/65/100/130/257, bias on/off, int or tuple arguments) and linear layers (in 1-6, '
            'out 1-5, bias on/off, input rank 2-5), inputs contiguous or dense non-contiguous (channels_last / transposed storage), conv modules optionally converted to channels_last (NHWC weight gradients); float64 data is a function of a drawn seed. Oracles: (a) get_grad() after a real '
            'forward/backward equals sum over samples and positions of g (x) [patch|1] with patches from torch.nn.functional.unfold; '
            '(b) _extract_patches == reshaped F.unfold (exact), input left unmodified; (c) set_grad(M); get_grad() == M (exact) and '
            'parameter .grad shapes/contiguity kept; (d) factor shapes == advertised shapes; (e) A and G factors equal the second moment of '
            'exactly those rows (spatially normalised for conv). Non-trivial: conv with a kernel > 1 in some dimension and Cin >= 2, or '
            'asymmetric stride/padding/kernel, or a linear input of rank >= 3.')
    assumptions = ['dilation 1, groups 1, zero padding given as ints (string paddings are not supported by the helper and outside the statement)',
                   'float64 helper-level comparison with relative tolerance 1e-10 (the operations differ only in summation order)']
    examples = {'quick': 600, 'thorough': 3000}
    shards = {'quick': 8, 'thorough': 16}
    required_labels = {'quick': ['kind=conv', 'kind=linear', 'nontrivial=True', 'asym_pad=True', 'nondivisible=True', 'permuted=True', 'weight_cl=True', 'large_batch=True'],
                       'thorough': ['kind=conv', 'kind=linear', 'nontrivial=True', 'asym_pad=True', 'nondivisible=True', 'permuted=True', 'weight_cl=True', 'large_batch=True']}

    def strategy(self, tier):
        return st.one_of(_conv(), _conv(), _linear())

    def run_case(self, case):
        import torch
        torch.set_default_dtype(torch.float32)
        if case['kind'] == 'conv':
            return self._conv(case)
        return self._linear(case)

    # ------------------------------------------------------------------
    def _common(self, helper, module, x, rows_a, rows_g_fn, labels, nontrivial, scale_a, scale_g):
        """rows_a: (R, a_dim) bias-augmented input rows; rows_g_fn(grad_out) -> (R, out) rows."""
        import torch
        x_before = x.clone()
        y = module(x)
        R = torch.empty_like(y)
        gen = torch.Generator().manual_seed(12345)
        R.copy_(torch.randn(y.shape, generator=gen, dtype=torch.float64))
        (y * R).sum().backward()
        rows_g = rows_g_fn(R)
        expected = rows_g.t() @ rows_a
        got = helper.get_grad()
        if tuple(got.shape) != tuple(expected.shape):
            return violation(f'get_grad() shape {tuple(got.shape)} != (out, in_features+bias) {tuple(expected.shape)}', 'grad-shape')
        if _rel(got, expected) > 1e-10:
            return violation(f'get_grad() differs from sum_n,pos g (x) [patch|1] (rel {_rel(got, expected):.2e}); case {labels}', 'grad-layout')
        # (d) + (e): factors
        A = helper.get_a_factor(x.detach().clone())
        G = helper.get_g_factor(R.clone())
        if tuple(A.shape) != tuple(helper.a_factor_shape) or tuple(G.shape) != tuple(helper.g_factor_shape):
            return violation(f'factor shapes {tuple(A.shape)}, {tuple(G.shape)} != advertised {helper.a_factor_shape}, {helper.g_factor_shape}', 'factor-shape')
        if A.shape[0] != expected.shape[1] or G.shape[0] != expected.shape[0]:
            return violation(f'factor shapes {tuple(A.shape)}, {tuple(G.shape)} inconsistent with gradient matrix {tuple(expected.shape)}', 'factor-shape')
        ra = rows_a * scale_a
        rg = rows_g * scale_g
        A_ref = ra.t() @ ra / ra.shape[0]
        G_ref = rg.t() @ rg / rg.shape[0]
        if _rel(A, A_ref) > 1e-10:
            return violation(f'get_a_factor differs from the second moment of the gradient\'s input rows (rel {_rel(A, A_ref):.2e})', 'a-factor')
        if _rel(G, G_ref) > 1e-10:
            return violation(f'get_g_factor differs from the second moment of the output-gradient rows (rel {_rel(G, G_ref):.2e})', 'g-factor')
        if not torch.equal(x, x_before):
            return violation('helper modified the layer input', 'input-modified')
        # (c) set/get round trip
        gen2 = torch.Generator().manual_seed(999)
        M = torch.randn(expected.shape, generator=gen2, dtype=torch.float64)
        wshape, bshape = module.weight.grad.shape, (module.bias.grad.shape if module.bias is not None else None)
        helper.set_grad(M.clone())
        back = helper.get_grad()
        if not torch.equal(back, M):
            return violation('set_grad(M); get_grad() != M', 'set-get')
        if module.weight.grad.shape != wshape or (bshape is not None and module.bias.grad.shape != bshape):
            return violation('set_grad changed the shape of a parameter gradient', 'set-get-shape')
        if not module.weight.grad.is_contiguous() or (bshape is not None and not module.bias.grad.is_contiguous()):
            return violation('set_grad left a non-contiguous gradient', 'set-get-contiguous')
        # the written weight gradient must be M's columns in the weight's own memory order
        if not torch.equal(module.weight.grad.reshape(M.shape[0], -1), M[:, : M.shape[1] - (1 if bshape is not None else 0)]):
            return violation('set_grad wrote the weight columns in a different order', 'set-get')
        if bshape is not None and not torch.equal(module.bias.grad, M[:, -1]):
            return violation('set_grad did not write the last column to the bias', 'set-get')
        labels['nontrivial'] = nontrivial
        return passed(nontrivial, labels)

    def _conv(self, c):
        import torch
        import torch.nn.functional as F
        from kfac.layers.register import get_module_helper
        gen = torch.Generator().manual_seed(c['seed'])
        k, s, p = tuple(c['k']), tuple(c['s']), tuple(c['p'])
        if c['int_args'] and k[0] == k[1] and s[0] == s[1] and p[0] == p[1]:
            module = torch.nn.Conv2d(c['cin'], c['cout'], k[0], stride=s[0], padding=p[0], bias=c['bias']).double()
        else:
            module = torch.nn.Conv2d(c['cin'], c['cout'], k, stride=s, padding=p, bias=c['bias']).double()
        with torch.no_grad():
            for prm in module.parameters():
                prm.copy_(torch.randn(prm.shape, generator=gen, dtype=torch.float64))
        x = torch.randn((c['N'], c['cin'], c['H'], c['W']), generator=gen, dtype=torch.float64)
        if c.get('weight_cl'):
            module = module.to(memory_format=torch.channels_last)
        if c.get('permuted'):
            x = x.contiguous(memory_format=torch.channels_last)
        helper = get_module_helper(module)
        unf = F.unfold(x, kernel_size=k, padding=p, stride=s)          # (N, C*kh*kw, L)
        L = unf.shape[-1]
        oh = (c['H'] + 2 * p[0] - k[0]) // s[0] + 1
        ow = (c['W'] + 2 * p[1] - k[1]) // s[1] + 1
        assert oh * ow == L
        patches_ref = unf.transpose(1, 2).reshape(c['N'], oh, ow, -1)
        x0 = x.clone()
        got = helper._extract_patches(x)
        if tuple(got.shape) != tuple(patches_ref.shape) or not torch.equal(got, patches_ref):
            return violation(f'_extract_patches disagrees with torch.nn.functional.unfold for {c}', 'patches')
        if not torch.equal(x, x0):
            return violation('_extract_patches modified its input', 'input-modified')
        rows = unf.transpose(1, 2).reshape(-1, unf.shape[1])
        if c['bias']:
            rows = torch.cat([rows, torch.ones(rows.shape[0], 1, dtype=torch.float64)], 1)
        nondiv = ((c['H'] + 2 * p[0] - k[0]) % s[0] != 0) or ((c['W'] + 2 * p[1] - k[1]) % s[1] != 0)
        labels = {'kind': 'conv', 'bias': c['bias'], 'asym_pad': p[0] != p[1], 'asym_stride': s[0] != s[1],
                  'asym_kernel': k[0] != k[1], 'nondivisible': nondiv, 'permuted': bool(c.get('permuted')),
                  'weight_cl': bool(c.get('weight_cl')) and c['cin'] > 1 and max(k) > 1, 'large_batch': c['N'] > 64}
        nt = (max(k) > 1 and c['cin'] >= 2) or p[0] != p[1] or s[0] != s[1] or k[0] != k[1]
        return self._common(helper, module, x, rows, lambda R: R.reshape(c['N'], c['cout'], L).transpose(1, 2).reshape(-1, c['cout']),
                            labels, nt, 1.0 / L, 1.0 / L)

    def _linear(self, c):
        import torch
        from kfac.layers.register import get_module_helper
        gen = torch.Generator().manual_seed(c['seed'])
        module = torch.nn.Linear(c['in'], c['out'], bias=c['bias']).double()
        with torch.no_grad():
            for prm in module.parameters():
                prm.copy_(torch.randn(prm.shape, generator=gen, dtype=torch.float64))
        x = torch.randn(tuple(c['lead']) + (c['in'],), generator=gen, dtype=torch.float64)
        if c.get('permuted'):
            x = x.transpose(0, -1).contiguous().transpose(0, -1)      # dense, same values, non-contiguous
        helper = get_module_helper(module)
        rows = x.reshape(-1, c['in'])
        if c['bias']:
            rows = torch.cat([rows, torch.ones(rows.shape[0], 1, dtype=torch.float64)], 1)
        rank = len(c['lead']) + 1
        labels = {'kind': 'linear', 'bias': c['bias'], 'input_rank': rank, 'permuted': bool(c.get('permuted'))}
        return self._common(helper, module, x, rows, lambda R: R.reshape(-1, c['out']), labels, rank >= 3, 1.0, 1.0)


PROP = C15()
